#!/bin/sh
# Build the checking interpreter: a venv of the repository's own python (3.12) plus the z3 wheel
# from the offline wheelhouse. Falls back to python3-vt (3.11, z3 pre-installed) inside ./check.
cd "$(dirname "$0")" || exit 1
if [ -x .venv/bin/python ] && .venv/bin/python -c "import z3" 2>/dev/null; then exit 0; fi
rm -rf .venv
/venv/bin/python -m venv .venv >/dev/null 2>&1 && \
  PIP_NO_INDEX=1 .venv/bin/pip install -q --no-index --find-links /opt/veriftools/wheels z3-solver >/dev/null 2>&1
if .venv/bin/python -c "import z3" 2>/dev/null; then echo "setup: .venv ready"; exit 0; fi
rm -rf .venv
if python3-vt -c "import z3" 2>/dev/null; then echo "setup: falling back to python3-vt"; exit 0; fi
echo "setup: no interpreter with z3 available" >&2; exit 1
