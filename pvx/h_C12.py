"""C12 — chunked transfer decoding is independent of segmentation (zlib as an uninterpreted function)."""
import itertools

import z3

from . import sym, shims, rdrdrv
from .core import JobResult
from .sym import SymBytes

META = {
    "level": "model_checking",
    "functions": ["pyrtcm.socketwrapper.SocketWrapper.dechunk", "._recv (_partial carry)", ".read"],
    "transforms": [],
    "shims": ["SymSocket with bounded cuts", "bytes / BytesIO / int (socketwrapper)", "zlib.decompress as uninterpreted function Z(wbits, chunk) -> 2 fresh bytes"],
    "bounds": {"quick": "bodies of 1-3 chunks of sizes 1..3 and 10/11-byte chunks (size line upper/lower case hex, two-digit '0A'/'0a'), with/without the terminating "
                        "zero chunk, chunk data bytes symbolic (may equal CR, LF, hex digits); every placement of <=3 receive cuts (<=2 for bodies above 6 data bytes); encodings chunked, |gzip, |compress, |deflate",
               "thorough": "3 chunks, <=3 cuts, chunk sizes up to 17"},
    "outside": "zlib itself (FFI, replaced by an uninterpreted function); chunk extensions and trailers; malformed bodies",
    "assumptions": ["reference: RFC 9112 chunked-body grammar applied to the unsegmented stream"],
}
WALL_BUDGET = {"quick": 900, "thorough": 3000}
ENC = {0: 1, 2: 1 | 2, 4: 1 | 4, 8: 1 | 8}


def jobs(tier, seed):
    out = []
    bodies = []
    for sizes in ((1,), (3,), (2, 1), (3, 2), (1, 1), (10,), (2, 10), (1, 2, 3), (11, 1)):
        for final in (True, False):
            for case in ('lower', 'upper'):
                if case == 'upper' and not any(s >= 10 for s in sizes):
                    continue
                bodies.append((sizes, final, case))
    if tier != 'quick':
        for sizes in ((1, 2, 3), (3, 3, 3), (17,), (10, 11, 1), (15, 2)):
            for final in (True, False):
                for case in ('lower', 'upper'):
                    bodies.append((sizes, final, case))
    for b in bodies:
        for enc in (0, 2, 4, 8):
            if enc and (len(b[0]) > 2 or b[2] == 'upper') and tier == 'quick':
                continue
            out.append((b, enc, 3 if (tier != 'quick' or sum(b[0]) <= 6) else 2))
    return out


def build_body(sizes, final, case):
    """(elements, [ranges of chunk data])"""
    elems = []
    chunks = []
    for i, n in enumerate(sizes):
        hx = ("%x" % n) if case == 'lower' else ("%X" % n)
        if n >= 10 and i == 0:
            hx = "0" + hx          # zero-padded two-digit size line
        elems += list(hx.encode()) + [13, 10]
        d = sym.symbytes(f"d{i}_", n)
        chunks.append(d)
        elems += d.e + [13, 10]
    if final:
        elems += list(b"0\r\n\r\n")
    return SymBytes(elems), chunks


def run_job(spec):
    from pyrtcm.socketwrapper import SocketWrapper
    shims.install()
    import pyrtcm.socketwrapper as sw
    (sizes, final, case), enc, maxcuts = spec
    res = JobResult(str(spec))
    eng = sym.Engine(max_paths=30000, conc_limit=64)
    eng.time_budget = 240
    H = {}

    def fn():
        uf = shims.UFDecompress()
        sw.__dict__['decompress'] = uf
        data, chunks = build_body(sizes, final, case)
        sock = shims.SymSocket(data, maxcuts=maxcuts)
        H.update(data=data, chunks=chunks, sock=sock, uf=uf)
        try:
            w = SocketWrapper(sock, encoding=ENC[enc], bufsize=4096)
            out = []
            for _ in range(4 * len(data) + 8):
                d = w.read(1)
                if len(d) == 0:
                    break
                out += list(d)
            return out
        finally:
            sock.close()
    for path in eng.explore(fn):
        if path.kind == 'abort':
            continue
        res['obligations'] += 1
        data, chunks, sock, uf = H['data'], H['chunks'], H['sock'], H['uf']
        if path.kind != 'ret':
            res['obligations'] -= 1
            if path.kind == 'exc':
                res['obligations'] += 1
                res['refuted'] += 1
                if eng.check3() == 'sat':
                    res['cex'].append(case_of(eng.model(), data, sock, enc, chunks, f"raised {type(path.value).__name__}: {str(path.value)[:60]}"))
            else:
                res['inconclusive'].append(f"{spec}: {path.kind} {str(path.value)[:80]}")
            continue
        # reference: concatenation of (decoded) chunk bodies in order
        exp = []
        for c in chunks:
            if enc == 0:
                exp += list(c.e)
            else:
                wb = {2: 15 | 16, 4: 15, 8: -15}[enc]
                hit = [o for (w_, d_, o) in uf.calls if w_ == wb and sym.same_bytes(list(d_), list(c.e))]
                if not hit:
                    exp = None
                    break
                exp += list(hit[0])
        got = path.value
        if exp is not None and sym.same_bytes(got, exp):
            res['discharged'] += 1
            if len(res['witnesses']) < 2 and eng.check3() == 'sat' and enc == 0:
                res['witnesses'].append(case_of(eng.model(), data, sock, enc, chunks, "witness"))
        else:
            res['refuted'] += 1
            why = "delivered bytes differ from the concatenation of the chunk bodies" if exp is not None else \
                  "a chunk body was never handed to the decompressor as one unit"
            if eng.check3() == 'sat':
                res['cex'].append(case_of(eng.model(), data, sock, enc, chunks, why))
        res.count('segmentations')
    res.absorb_engine(eng)
    res['samples'].append({'body': [list(sizes), final, case], 'encoding': ENC[enc], 'max_cuts': maxcuts, 'segmentations': res['counters'].get('segmentations', 0)})
    return res


def case_of(model, data, sock, enc, chunks, why):
    """concrete replay: for compressed encodings the chunk bodies are replaced by really compressed data of the same length class (best effort)"""
    raw = rdrdrv.model_bytes(model, data)
    return {'kind': 'chunked', 'data': raw.hex(), 'recv_log': list(sock.log), 'encoding': ENC[enc], 'why': why,
            'chunk_bodies': [rdrdrv.model_bytes(model, c).hex() for c in chunks], 'dedup': f"{enc}:{why[:40]}:{len(raw)}"}


def vacuity(tier, results, counters):
    if counters.get('segmentations', 0) < 500:
        return [f"only {counters.get('segmentations', 0)} segmentations"]
    return []
