"""C19 — attribute-name helpers handle every name the parser generates (index digits symbolic)."""
import z3

from . import sym, shims, msgdrv, structs, oracle_layout as ol
from .core import JobResult
from .sym import SymStr, SymInt

META = {
    "level": "model_checking",
    "functions": ["pyrtcm.rtcmhelpers.att2idx", "att2name", "datadesc", "(_att2parts)"],
    "transforms": [],
    "shims": ["int (digit strings -> decimal polynomial)", "RTCM_DATA_FIELDS (rtcmhelpers) readable with symbolic string keys"],
    "bounds": {"quick": "every (field, nesting depth) template that occurs in the layout of any defined identity (read from the independent layout walker over the repo "
                        "tables, counts 1), index digits symbolic: each level with two digits (01..99) and with three digits (100..999): all indices at once per template",
               "thorough": "same (the digit space is covered completely in quick)"},
    "outside": "indices above 999; names the parser cannot produce",
    "assumptions": ["name grammar: field key + one '_' + zero-padded (>=2 digits) decimal index per nesting level"],
}
WALL_BUDGET = {"quick": 900, "thorough": 3000}


def templates():
    """(key, depth) for every field occurrence of every defined identity; plus the MSM derived names"""
    tb = ol.tables()
    out = {}
    for ident in sorted(tb['payloads']):
        if not structs.wellformed(ident):
            continue
        k = structs.kind_of(ident)
        st = dict(nsat=1, nsig=1, cellmask='ones', maskmode='value') if k == 'msm' else dict(harm=(0, 1, 1)) if k == 'harm' else \
            dict(flags=15) if k == 'flags' else dict(mode=('uniform', 1))
        try:
            d = msgdrv.Directed(ident, structs.chooser(st), spare=0)
        except ol.BadDefinition:
            continue
        for f in d.layout.fields:
            depth = len(f.idx)
            if f.typ == "STR":
                depth = 0        # text units are joined into one un-indexed attribute
            out.setdefault((f.key, depth), ident)
    return out


def jobs(tier, seed):
    t = sorted(templates().items())
    per = 25
    return [('tmpl', [(k, d, i) for (k, d), i in t[j:j + per]]) for j in range(0, len(t), per)] + [('family',)]


def run_job(spec):
    shims.install()
    import pyrtcm.rtcmhelpers as rh
    tb = ol.tables()
    if spec[0] == 'family':
        return run_family()
    res = JobResult(f"tmpl:{spec[1][0][0]}..")
    batch = []
    for (key, depth, ident) in spec[1]:
        combos = [()] if depth == 0 else None
        if depth == 1:
            combos = [(2,), (3,)]
        elif depth == 2:
            combos = [(2, 2), (2, 3), (3, 2), (3, 3)]
        elif depth >= 3:
            combos = [(2,) * depth, (3,) * depth]
        desc = tb['fields'][key][3]
        for nds in combos:
            eng = sym.Engine(max_paths=200, conc_limit=16)
            eng.time_budget = 60
            H = {}

            def fn():
                cs = list(key)
                exp = []
                for lv, nd in enumerate(nds):
                    ds = [sym.symint(f"d{lv}_{i}", 8) for i in range(nd)]
                    for dgt in ds:
                        eng.assume(z3.And(dgt.t >= 48, dgt.t <= 57))
                    if nd == 3:
                        eng.assume(ds[0].t >= 49)
                    val = 0
                    for dgt in ds:
                        val = val * 10 + (dgt - 48)
                    eng.assume((val >= 1).t)
                    exp.append(val)
                    cs += ["_"] + ds
                name = SymStr(cs).norm()
                H['name'], H['exp'] = name, exp
                r = {}
                for fn_, k in ((rh.att2idx, 'idx'), (rh.att2name, 'name'), (rh.datadesc, 'desc')):
                    try:
                        r[k] = fn_(name)
                    except sym.EngineSignal:
                        raise
                    except TypeError as e:
                        if "Sym" in str(e) or "expected str" in str(e) or "string or bytes" in str(e):
                            raise sym.Unsupported(f"symbolic string reached a builtin: {e}")
                        r[k] = ('EXC', type(e).__name__, str(e)[:60])
                    except Exception as e:   # noqa
                        r[k] = ('EXC', type(e).__name__, str(e)[:60])
                return r
            for path in eng.explore(fn):
                if path.kind == 'abort':
                    continue
                res['obligations'] += 1
                if path.kind != 'ret':
                    res['obligations'] -= 1
                    res['inconclusive'].append(f"{key} {nds}: {path.kind} {str(path.value)[:60]}")
                    continue
                res.count('name_paths_ok')
                r, exp = path.value, H['exp']
                bad = []
                nm = r['name']
                if isinstance(nm, SymStr):
                    nm = nm.norm()
                if nm != key:
                    bad.append(f"att2name gives {nm!r}")
                idx = r['idx']
                if isinstance(idx, tuple) and idx and idx[0] == 'EXC':
                    bad.append(f"att2idx raised {idx[1]}")
                else:
                    idxs = list(idx) if isinstance(idx, tuple) else [idx]
                    if depth == 0:
                        if idx != 0:
                            bad.append(f"att2idx of an un-indexed name gives {idx!r}")
                    elif len(idxs) != len(exp) or (depth >= 2) != isinstance(idx, tuple):
                        bad.append(f"att2idx gives {len(idxs)} indices for nesting depth {depth}")
                    else:
                        for a, b in zip(idxs, exp):
                            a2 = SymInt.lift(a)
                            if a2 is None or eng.check3((a2 != b).t) != 'unsat':
                                bad.append("att2idx value differs from the index digits")
                                break
                dsc = r['desc']
                if dsc != desc:
                    bad.append(f"datadesc gives {dsc!r}"[:80])
                if bad:
                    res['refuted'] += 1
                    if eng.check3() == 'sat':
                        m = eng.model()
                        n = H['name']
                        cname = n if isinstance(n, str) else "".join(c if isinstance(c, str) else chr(m.eval(c.t, model_completion=True).as_long()) for c in n.cs)
                        res['cex'].append({'kind': 'names', 'name': cname, 'key': key, 'depth': depth, 'why': f"{cname}: " + "; ".join(bad[:2]),
                                           'dedup': f"{key}:{depth}:{bad[0][:30]}"})
                else:
                    res['discharged'] += 1
                    if len(res['witnesses']) < 3 and eng.check3() == 'sat' and depth:
                        m = eng.model()
                        n = H['name']
                        cname = "".join(c if isinstance(c, str) else chr(m.eval(c.t, model_completion=True).as_long()) for c in n.cs)
                        res['witnesses'].append({'kind': 'names', 'name': cname, 'key': key, 'depth': depth})
                res.count('name_paths')
            res.absorb_engine(eng)
        res.count('templates')
        # boundary indices as concrete witnesses (replayed on the unmodified code; also the fallback when the helpers use
        # operations the string proxy cannot model, e.g. a regular expression)
        if depth:
            edge = ["01", "09", "10", "99", "100", "153", "999"]
            import itertools
            combos2 = list(itertools.product(edge, repeat=depth)) if depth <= 2 else [(e,) * depth for e in edge]
            batch.append({'key': key, 'depth': depth, 'names': [key + "".join("_" + x for x in c) for c in combos2]})
        else:
            batch.append({'key': key, 'depth': 0, 'names': [key]})
    res['witnesses'].append({'kind': 'names', 'batch': batch})
    res['samples'].append({'templates': [list(x) for x in spec[1][:4]], 'n': len(spec[1])})
    return res


def run_family():
    """fields whose own name contains an underscore (DF001_7, DF422_1 ...): describing one member of such a family must not change what the
    next call returns for another member (and for the plain field of the same stem)"""
    import pyrtcm.rtcmhelpers as rh
    tb = ol.tables()
    res = JobResult("family")
    fam = {}
    for k in tb['fields']:
        fam.setdefault(k.split("_")[0], []).append(k)
    fams = [v for v in fam.values() if len(v) > 1]
    eng = sym.Engine(max_paths=50)
    seqs = []
    for members in fams:
        for a in members:
            for b in members:
                if a != b:
                    seqs.append((a, b))

    def fn():
        out = []
        for a, b in seqs:
            rh.datadesc(a + "_01")
            out.append((a, b, rh.datadesc(b), rh.datadesc(b + "_02"), rh.att2name(b + "_02"), rh.att2idx(b + "_02")))
        return out
    for path in eng.explore(fn):
        if path.kind != 'ret':
            if path.kind == 'exc':
                res['obligations'] += 1
                res['refuted'] += 1
                res['cex'].append({'kind': 'names', 'batch': [{'key': b, 'depth': 0, 'names': [b]} for a, b in seqs[:8]], 'pre': [a for a, b in seqs[:8]],
                                   'why': f"helper raised {type(path.value).__name__}: {path.value}", 'dedup': 'family-exc'})
            continue
        for (a, b, d0, d1, n1, i1) in path.value:
            res['obligations'] += 1
            want = tb['fields'][b][3]
            if d0 == want and d1 == want and n1 == b and i1 == 2:
                res['discharged'] += 1
            else:
                res['refuted'] += 1
                res['cex'].append({'kind': 'names', 'pre': [a + "_01"], 'batch': [{'key': b, 'depth': 0, 'names': [b]}, {'key': b, 'depth': 1, 'names': [b + "_02"]}],
                                   'why': f"after describing {a}: datadesc({b}) = {d0!r}", 'dedup': f"family:{a.split('_')[0]}"})
            res.count('name_paths')
            res.count('name_paths_ok')
    res.absorb_engine(eng)
    res['samples'].append({'families': [v for v in fams][:5]})
    return res


def vacuity(tier, results, counters):
    if counters.get('templates', 0) < 300:
        return [f"only {counters.get('templates', 0)} name templates"]
    return []
