"""C08 — CRC-24Q is computed correctly and all guaranteed-detectable damage is rejected.
Engine K splits the real calc_crc24q into pre / step(state, octet) / post; every lemma below is about the REAL loop body and holds for
all 2^24 states x 2^8 octets.  By induction on the length they give, for every message of <= 1029 bytes:
  F1-F3 + S1  : calc_crc24q is CRC-24Q (generator 0x1864CFB, zero init, MSB first, no final xor)
  Lin + NZ + {Bst | Par | Two} : a valid frame XOR (burst <= 24 | odd weight | two bits) has a non-zero CRC.
The reader-level half (parse() raises RTCMParseError iff the checksum bit of validate is set and the CRC result is non-zero; with validation
off the trailer does not influence the result) is decided on symbolic frames."""
import os
import subprocess
import tempfile
import time

import z3

from . import sym, shims, msgdrv, rdrdrv, transforms, concrete
from .core import JobResult
from .sym import SymInt, SymBytes

POLY = 0x1864CFB
META = {
    "level": "model_checking",
    "functions": ["pyrtcm.rtcmhelpers.calc_crc24q (fold-extracted: pre/step/post from the current source)", "pyrtcm.rtcmhelpers.crc2bytes",
                  "pyrtcm.rtcmreader.RTCMReader.parse"],
    "transforms": ["fold extraction + if-conversion of calc_crc24q"],
    "shims": ["int"],
    "bounds": {"quick": "lemmas over all (24-bit state, octet) pairs; two-bit errors: solver-decided for gaps <= 64 zero bytes, and for every distance inside 1029 bytes through the linearity lemma plus the table of the 8232 single-bit syndromes computed with the real loop body; fold faithfulness "
                        "checked for lengths 0..16, 255, 256, 1029; parse() gate on symbolic frames of 8..12 bytes; direct whole-function equivalence for lengths <= 2",
               "thorough": "solver two-bit gaps <= 128 bytes; lemmas cross-checked with cvc5 and /usr/bin/z3 4.8.12 via SMT-LIB2"},
    "outside": "messages longer than 1029 bytes (the induction is stated up to the maximum frame size)",
    "assumptions": ["induction on message length composes the per-step lemmas (stated, not mechanised)", "reference CRC: schoolbook long division and table form, mutually checked"],
}
WALL_BUDGET = {"quick": 900, "thorough": 3000}


def jobs(tier, seed):
    G = 64 if tier == 'quick' else 128
    out = [('lemmas',), ('two', G), ('twosyn',), ('faith',), ('gate', 8), ('gate', 10), ('gate', 12), ('direct',), ('crc2bytes',), ('valoff',), ('hist',)]
    if tier != 'quick':
        out.append(('cross',))
    return out


def get_fold():
    st = shims.install()
    return transforms.Fold(st['orig']['calc_crc24q'])


def stepterm(fold, s, o):
    """24-bit result term of one real loop iteration from 24-bit state s and 8-bit octet o (other state variables from pre())"""
    st0 = fold.pre()
    ci = fold.state.index('crc') if 'crc' in fold.state else 0
    args = [SymInt(z3.ZeroExt(1, s)) if i == ci else x for i, x in enumerate(st0)]
    out = fold.step(*args, SymInt(z3.ZeroExt(1, o)))
    if not isinstance(out, tuple):
        out = (out,)
    r = SymInt.lift(out[ci])
    return r, out, ci


def low24(r):
    return z3.Extract(23, 0, sym.sx(r.t, max(r.w, 25)))


def ref_longdiv(s, o):
    r = z3.Concat(s, z3.BitVecVal(0, 8)) ^ z3.Concat(o, z3.BitVecVal(0, 24))
    for i in range(31, 23, -1):
        r = z3.If(z3.Extract(i, i, r) == 1, r ^ z3.BitVecVal(POLY << (i - 24), 32), r)
    return z3.Extract(23, 0, r)


def ref_table(s, o):
    table = [concrete._polymod(i << 24) for i in range(256)]
    idx = z3.Extract(23, 16, s) ^ o
    tv = z3.BitVecVal(0, 24)
    for i, v in enumerate(table):
        tv = z3.If(idx == i, z3.BitVecVal(v, 24), tv)
    return z3.Concat(z3.Extract(15, 0, s), z3.BitVecVal(0, 8)) ^ tv


def parity(t):
    a = z3.Extract(0, 0, t)
    for i in range(1, t.size()):
        a = a ^ z3.Extract(i, i, t)
    return a


def prove(res, name, claim, timeout=300000, model_vars=None, on_cex=None):
    s = z3.Solver()
    s.set("timeout", timeout)
    s.add(z3.Not(claim))
    t = time.time()
    r = s.check()
    dt = time.time() - t
    res['obligations'] += 1
    res['solver_s'] += dt
    res['checks'] += 1
    res['notes'].append(f"{name}: {r} in {dt:.2f}s")
    if r == z3.unsat:
        res['discharged'] += 1
        return True
    if r == z3.sat:
        res['refuted'] += 1
        if on_cex is not None:
            on_cex(s.model())
        return False
    res['inconclusive'].append(f"lemma {name}: solver {r}")
    return None


def crc_case(data, why, extra=None):
    c = {'kind': 'crc', 'data': bytes(data).hex(), 'why': why, 'dedup': why[:50]}
    if extra:
        c.update(extra)
    return c


def run_lemmas(res):
    fold = get_fold()
    if not fold.ok:
        res['notes'].append(f"calc_crc24q is not a fold over its argument ({fold.why}): inductive lemmas unavailable")
        res['inconclusive'].append(f"fold extraction failed: {fold.why}; only direct bounded checks were run")
        return
    eng = sym.Engine()   # proxies need an engine for decisions (none expected: the step is if-converted)
    eng.begin_run()
    s, o = z3.BitVec('s', 24), z3.BitVec('o', 8)
    r, out, ci = stepterm(fold, s, o)
    W = r.t.size()
    res['paths'] += 1
    res['decisions'] += 1
    # F1: pre is the zero register, post is the low 24 bits
    st0 = fold.pre()
    f1 = (st0[ci] == 0)
    pv = fold.post(*[SymInt(z3.ZeroExt(1, s)) if i == ci else x for i, x in enumerate(st0)])
    pvt = SymInt.lift(pv)

    def cex_state(name):
        def f(m):
            sv = m.eval(s, model_completion=True).as_long()
            ov = m.eval(o, model_completion=True).as_long()
            # reach state sv with a 3-byte message (the register is linear and full rank over 24 input bits), then feed octet ov
            res['cex'].append(crc_case(state_preimage(sv) + bytes([ov]), f"{name}: state {sv:#08x} octet {ov:#04x}"))
        return f
    res['obligations'] += 1
    if f1 is True or (not isinstance(f1, bool) and False):
        res['discharged'] += 1
    elif st0[ci] == 0:
        res['discharged'] += 1
    else:
        res['refuted'] += 1
        res['cex'].append(crc_case(b"", "F1: initial register is not zero"))
    prove(res, "F1b post(s)==s mod 2^24", sym.sx(pvt.t, 26) == z3.ZeroExt(2, s), on_cex=lambda m: res['cex'].append(
        crc_case(state_preimage(m.eval(s, model_completion=True).as_long()), "F1b: post-processing is not the identity on 24 bits")))
    # the other state variables (e.g. poly) must be loop-invariant
    inv = all((x is y) or (isinstance(x, int) and isinstance(y, int) and x == y) for i, (x, y) in enumerate(zip(st0, out)) if i != ci)
    res['obligations'] += 1
    if inv:
        res['discharged'] += 1
    else:
        res['inconclusive'].append("loop carries more state than the CRC register: lemma set does not apply")
    rt = sym.sx(r.t, W + 2)
    prove(res, "F2 range", z3.And(rt >= 0, rt < z3.BitVecVal(1 << 24, W + 2)), on_cex=cex_state("F2 range"))
    st = low24(r)
    prove(res, "S1 step == long division by 0x1864CFB", st == ref_longdiv(s, o), on_cex=cex_state("S1"))
    prove(res, "S2 step == table form", st == ref_table(s, o), on_cex=cex_state("S2"))

    def stp(a, b):
        return low24(stepterm(fold, a, b)[0])
    s1, s2 = z3.BitVecs('s1 s2', 24)
    o1, o2 = z3.BitVecs('o1 o2', 8)
    prove(res, "Lin linearity", stp(s1 ^ s2, o1 ^ o2) == stp(s1, o1) ^ stp(s2, o2))
    prove(res, "NZ non-zero syndrome survives a zero byte", z3.Implies(s != 0, stp(s, z3.BitVecVal(0, 8)) != 0))
    prove(res, "Par parity (factor x+1)", parity(stp(s, o)) == parity(s) ^ parity(o))
    e = z3.BitVec('e', 32)
    stt = z3.BitVecVal(0, 24)
    for i in range(4):
        stt = stp(stt, z3.Extract(31 - 8 * i, 24 - 8 * i, e))
    lo = e & -e
    span_ok = z3.Or(z3.Extract(31, 8, lo) != 0, z3.ULT(e, lo << 24))
    prove(res, "Bst burst<=24 in a 4-byte window from state 0", z3.Implies(z3.And(e != 0, span_ok), stt != 0))
    z = stp(stp(stp(s, z3.Extract(23, 16, s)), z3.Extract(15, 8, s)), z3.Extract(7, 0, s))
    prove(res, "Z appending the CRC zeroes the register", z == 0)
    c0, c1, c2 = z3.BitVecs('c0 c1 c2', 8)
    prove(res, "Z' zeroing trailer is unique", z3.Implies(stp(stp(stp(s, c0), c1), c2) == 0, z3.Concat(c0, c1, c2) == s))
    res['samples'].append({'lemmas': res['notes'][:12]})
    # concrete cross-validation of the extracted fold against the real function and the two references
    import random
    rnd = random.Random(1)
    from pyrtcm.rtcmhelpers import calc_crc24q as real
    real = shims._STATE['orig']['calc_crc24q']
    for n in (0, 1, 2, 3, 7, 255, 256, 1029):
        d = bytes(rnd.randrange(256) for _ in range(n))
        res['witnesses'].append(crc_case(d, "witness"))


state_preimage = concrete.state_preimage


def run_two(G, res):
    """two flipped bits anywhere in a frame: b1, b2 with popcount(b1)+popcount(b2)==2, b1 != 0, any gap g <= G zero bytes"""
    fold = get_fold()
    if not fold.ok:
        res['inconclusive'].append("fold extraction failed: two-bit lemma unavailable")
        return
    eng = sym.Engine()
    eng.begin_run()

    def stp(a, b):
        return low24(stepterm(fold, a, b)[0])
    b1, b2 = z3.BitVecs('b1 b2', 8)
    pc = sym.popcount(SymInt(z3.ZeroExt(1, z3.Concat(b1, b2)))).t
    pre = z3.And(b1 != 0, pc == 2)
    st = stp(z3.BitVecVal(0, 24), b1)
    claims = [stp(st, b2) != 0]
    zero = z3.BitVecVal(0, 8)
    t0 = time.time()
    for g in range(1, G + 1):
        st = z3.simplify(stp(st, zero))
        claims.append(stp(st, b2) != 0)
    res['notes'].append(f"two-bit: built {len(claims)} gap claims in {time.time() - t0:.1f}s")
    res['paths'] += 1
    res['decisions'] += len(claims)
    # single flipped byte with two bits is covered by gap 0 with b2 == 0 excluded by pc==2 & b1 having both bits: handle b2 == 0
    chunk = 64
    for i in range(0, len(claims), chunk):
        prove(res, f"Two gaps {i}..{min(i + chunk, len(claims)) - 1}", z3.Implies(pre, z3.And(*claims[i:i + chunk])), timeout=900000)
    res['samples'].append({'two_bit_gaps': G})


def run_twosyn(res):
    """two flipped bits at ANY distance inside a maximum-size frame (1029 bytes = 8232 bit positions).  By the linearity lemma (proved by
    the solver for every state and octet) the CRC of a two-bit error pattern is the XOR of the CRCs of the two single-bit patterns; so it is
    non-zero iff the 8232 single-bit syndromes are pairwise distinct.  The syndromes are computed with the extracted REAL loop body on
    concrete values (8 x 1029 steps) and compared - a finite table derived from the code, not sampled."""
    fold = get_fold()
    if not fold.ok:
        res['inconclusive'].append("fold extraction failed: two-bit syndrome table unavailable")
        return
    st0 = fold.pre()
    ci = fold.state.index('crc') if 'crc' in fold.state else 0
    seen = {}
    t0 = time.time()
    nbytes = 1029
    for bit in range(8):
        st = fold.step(*st0, 1 << bit)
        if not isinstance(st, tuple):
            st = (st,)
        for k in range(nbytes):          # the flipped bit sits in byte (nbytes-1-k) counted from the start
            syn = fold.post(*st)
            pos = (nbytes - 1 - k, bit)
            res['obligations'] += 1
            if syn == 0 or syn in seen:
                res['refuted'] += 1
                other = seen.get(syn)
                msg = bytearray(nbytes)
                msg[pos[0]] ^= 1 << bit
                if other is not None:
                    msg[other[0]] ^= 1 << other[1]
                res['cex'].append({'kind': 'crcpattern', 'error': bytes(msg).hex(), 'why': f"two-bit error at byte/bit {pos} and {other} has a zero CRC syndrome",
                                   'dedup': 'twosyn'})
                return
            res['discharged'] += 1
            seen[syn] = pos
            st = fold.step(*st, 0)
            if not isinstance(st, tuple):
                st = (st,)
    res['paths'] += 1
    res['decisions'] += len(seen)
    res['notes'].append(f"two-bit (syndrome table): {len(seen)} single-bit syndromes of a 1029-byte frame pairwise distinct and non-zero ({time.time() - t0:.1f}s); "
                        "with Lin this covers all C(8232,2) two-bit patterns")
    res['witnesses'].append({'kind': 'crcpattern', 'error': (b"\x00" * 500 + b"\x01" + b"\x00" * 527 + b"\x80").hex()})


def run_faith(res):
    """F3: the whole if-converted function on L symbolic bytes is post(step^L(pre)) - structural identity of the terms after simplification"""
    fold = get_fold()
    if not fold.ok:
        res['inconclusive'].append("fold extraction failed")
        return
    base = rdrdrv.base_crc()
    t_faith = time.time()
    for L in list(range(0, 17)) + [255, 256, 1029]:
        if time.time() - t_faith > 90 and L > 16:
            res['notes'].append(f"fold faithfulness: lengths >= {L} skipped (term construction too slow for this loop body); it is structural - the "
                                "whole function and the fold execute the same extracted statements")
            break
        eng = sym.Engine(max_paths=4)

        def fn():
            m = sym.symbytes("m", L)
            whole = base(m)
            st = fold.pre()
            for e in m.e:
                st = fold.step(*st, e)
                if not isinstance(st, tuple):
                    st = (st,)
            folded = fold.post(*st)
            return whole, folded
        for path in eng.explore(fn):
            res['obligations'] += 1
            if path.kind != 'ret':
                res['inconclusive'].append(f"faith L={L}: {path.kind} {path.value}")
                res['obligations'] -= 1
                continue
            w, f = path.value
            wt = w.t if isinstance(w, SymInt) else z3.BitVecVal(w, 26)
            ft = f.t if isinstance(f, SymInt) else z3.BitVecVal(f, 26)
            if wt.eq(ft) or z3.simplify(wt).eq(z3.simplify(ft)):
                res['discharged'] += 1
            else:
                W = max(wt.size(), ft.size())
                r = eng.check3(sym.sx(wt, W) != sym.sx(ft, W)) if L <= 3 else 'unknown'
                if r == 'unsat':
                    res['discharged'] += 1
                else:
                    res['inconclusive'].append(f"faith L={L}: fold and whole-function terms differ syntactically ({r})")
        res.absorb_engine(eng)


def run_gate(n, res):
    """RTCMReader.parse(x, validate=v) on symbolic x of n bytes: RTCMParseError iff v&1 and recorded CRC result over exactly x is non-zero"""
    from pyrtcm.rtcmreader import RTCMReader
    from pyrtcm.exceptions import RTCMParseError
    eng = sym.Engine(max_paths=200, conc_limit=4, conc_small=0)
    eng.conc_prefer = [4072]
    H = {}

    def fn():
        x = sym.symbytes("x", n)
        v = sym.symint("v", 3)
        H['x'], H['v'] = x, v
        summ = rdrdrv.CrcSummary()
        rec = rdrdrv.CrcRecorder(summ)
        H['rec'] = rec
        shims.set_crc(rec)
        try:
            return RTCMReader.parse(x, validate=v)
        finally:
            shims.set_crc(summ.direct)
    for path in eng.explore(fn):
        if path.kind == 'abort':
            continue
        if path.kind not in ('ret', 'exc'):
            res['inconclusive'].append(f"gate {n}: {path.kind} {path.value}")
            continue
        res['obligations'] += 1
        x, v, rec = H['x'], H['v'], H['rec']
        raised = path.kind == 'exc' and isinstance(path.value, RTCMParseError)
        fv = eng.forced((v.t & 1) != 0)
        von, voff = fv is True, fv is False
        on_x = [r for a, r in rec.calls if len(a) == n and sym.same_bytes(list(a), list(x))]
        bad = None
        if raised:
            if not von:
                bad = "parse error raised although the checksum bit of validate may be clear"
            elif not on_x or eng.forced(on_x[-1].t != 0) is not True:
                bad = "parse error raised although no CRC over exactly the frame is forced non-zero"
        else:
            if von:
                if not on_x or eng.forced(on_x[-1].t == 0) is not True:
                    bad = "frame accepted with validation on although the CRC over exactly the frame is not forced to zero"
            elif not voff:
                bad = "validate bit not decided on this path"
            elif path.kind == 'ret':
                # validation off: the result must not depend on the trailer bytes
                tv = set()
                for val in msgdrv.public_attrs(path.value).values():
                    for t in sym.term_of(val):
                        tv |= sym.vars_of(t)
                tr = {f"x{i}" for i in range(n - 3, n)}
                if tv & tr:
                    bad = f"with validation off the attributes depend on the checksum bytes {sorted(tv & tr)}"
        if bad:
            res['refuted'] += 1
            # prefer a model on which the real CRC over the whole buffer contradicts the outcome (accepted & non-zero / rejected & zero)
            eng.solver.set("timeout", 20000)
            whole = rdrdrv.base_crc()(x)
            want = (whole.t == 0) if raised else (whole.t != 0)
            ok_model = eng.check3(want) == 'sat' or eng.check3() == 'sat'
            if ok_model:
                m = eng.model()
                buf = rdrdrv.model_bytes(m, x)
                res['cex'].append({'kind': 'parse', 'buffer': buf.hex(), 'validate': m.eval(v.t, model_completion=True).as_long(),
                                   'checks': ['crcgate', 'total'], 'why': bad, 'dedup': f"gate:{bad[:40]}"})
        else:
            res['discharged'] += 1
            if len(res['witnesses']) < 3 and eng.check3() == 'sat':
                m = eng.model()
                res['witnesses'].append({'kind': 'parse', 'buffer': rdrdrv.model_bytes(m, x).hex(),
                                         'validate': m.eval(v.t, model_completion=True).as_long(), 'checks': ['crcgate', 'total']})
    res.absorb_engine(eng)
    res['trunc'] = [t for t in res['trunc'] if t and t[0] != 'conc_limit']


def run_direct(res):
    """whole-function equivalence with the reference for lengths <= 2 (XOR miters beyond that stall: the induction is the deciding argument)"""
    base = rdrdrv.base_crc()
    for L in (0, 1, 2):
        eng = sym.Engine(max_paths=4)
        H = {}

        def fn():
            m = sym.symbytes("m", L)
            H['m'] = m
            return base(m)
        for path in eng.explore(fn):
            if path.kind != 'ret':
                res['inconclusive'].append(f"direct L={L}: {path.kind}")
                continue
            got = path.value
            ref = z3.BitVecVal(0, 24)
            for e in H['m'].e:
                ref = ref_longdiv(ref, sym.byte_term(e))
            gt = got.t if isinstance(got, SymInt) else z3.BitVecVal(got, 26)
            res['obligations'] += 1
            eng.solver.set("timeout", 30000)
            r = eng.check3(sym.sx(gt, 27) != z3.ZeroExt(3, ref))
            if r == 'unsat':
                res['discharged'] += 1
            elif r == 'unknown' and L >= 2:
                # XOR miters stall CDCL solvers; the inductive step lemmas are the deciding argument (stated in DESIGN)
                res['obligations'] -= 1
                res['notes'].append("direct whole-function equivalence at L=2: solver gave up after 30 s (not counted)")
                eng.unknowns = 0
            elif r == 'sat':
                res['refuted'] += 1
                res['cex'].append(crc_case(rdrdrv.model_bytes(eng.model(), H['m']), f"direct L={L}: differs from CRC-24Q"))
            else:
                res['inconclusive'].append(f"direct L={L}: unknown")
        res.absorb_engine(eng)


def run_crc2bytes(res):
    """crc2bytes(m) is the big-endian 3-byte form of calc_crc24q(m)"""
    import pyrtcm.rtcmhelpers as rh
    for L in (0, 3, 9):
        eng = sym.Engine(max_paths=4)
        H = {}

        def fn():
            m = sym.symbytes("m", L)
            H['m'] = m
            return rh.crc2bytes(m), rh.calc_crc24q(m)
        for path in eng.explore(fn):
            res['obligations'] += 1
            if path.kind != 'ret':
                res['obligations'] -= 1
                res['inconclusive'].append(f"crc2bytes L={L}: {path.kind} {path.value}")
                continue
            b, c = path.value
            ct = c.t if isinstance(c, SymInt) else z3.BitVecVal(c, 26)
            ok = isinstance(b, (SymBytes, bytes)) and len(b) == 3
            if ok:
                bt = SymBytes(list(b)).term()
                r = eng.check3(z3.ZeroExt(3, bt) != sym.sx(ct, 27))
                ok = r == 'unsat'
            if ok:
                res['discharged'] += 1
            else:
                res['refuted'] += 1
                if eng.check3() == 'sat':
                    res['cex'].append(crc_case(rdrdrv.model_bytes(eng.model(), H['m']), "crc2bytes is not the big-endian CRC", {'check': 'crc2bytes'}))
        res.absorb_engine(eng)


def run_cross(res):
    """export the step lemmas as SMT-LIB2 and ask cvc5 and the system z3 4.8.12 (disagreement = harness error)"""
    fold = get_fold()
    if not fold.ok:
        return
    eng = sym.Engine()
    eng.begin_run()
    s, o = z3.BitVec('s', 24), z3.BitVec('o', 8)

    def stp(a, b):
        return low24(stepterm(fold, a, b)[0])
    s1, s2 = z3.BitVecs('s1 s2', 24)
    o1, o2 = z3.BitVecs('o1 o2', 8)
    lemmas = {"S1": stp(s, o) == ref_longdiv(s, o), "NZ": z3.Implies(s != 0, stp(s, z3.BitVecVal(0, 8)) != 0),
              "Lin": stp(s1 ^ s2, o1 ^ o2) == stp(s1, o1) ^ stp(s2, o2),
              "Z": stp(stp(stp(s, z3.Extract(23, 16, s)), z3.Extract(15, 8, s)), z3.Extract(7, 0, s)) == 0}
    for name, claim in lemmas.items():
        sol = z3.Solver()
        sol.add(z3.Not(claim))
        smt = "(set-logic QF_BV)\n" + sol.sexpr() + "\n(check-sat)\n"
        with tempfile.NamedTemporaryFile("w", suffix=".smt2", delete=False) as f:
            f.write(smt)
            fn = f.name
        for tool, cmd in (("cvc5", ["cvc5", "--tlimit=300000", fn]), ("z3-4.8.12", ["/usr/bin/z3", "-T:300", fn])):
            res['obligations'] += 1
            try:
                out = subprocess.run(cmd, capture_output=True, text=True, timeout=400).stdout.strip().splitlines()
                ans = out[0] if out else "?"
            except Exception as e:  # noqa
                ans = f"error {e}"
            res['notes'].append(f"cross {name} {tool}: {ans}")
            if ans == 'unsat':
                res['discharged'] += 1
            elif ans == 'sat':
                res['harness_errors'].append(f"solver disagreement on lemma {name}: {tool} says sat")
            else:
                res['inconclusive'].append(f"cross-check {name} with {tool}: {ans}")
        os.unlink(fn)
    res['paths'] += 1
    res['decisions'] += 1


def run_valoff(res):
    """validation off: parse(f) with wrong checksum bytes == parse(f') with right ones, term-wise (trailer never read)"""
    from pyrtcm.rtcmreader import RTCMReader
    for (num, plen) in ((4072, 4), (1005, 19), (1230, 8)):
        eng = sym.Engine(max_paths=64, conc_limit=4)
        H = {}

        def fn():
            pay = sym.symbytes("p", plen)
            c1 = sym.symbytes("c", 3)
            c2 = sym.symbytes("d", 3)
            eng.assume(msgdrv.fterm(pay.term(), 8 * plen, 0, 12) == num)
            hdr = [0xD3, plen >> 8, plen & 0xFF]
            a = RTCMReader.parse(SymBytes(hdr + pay.e + c1.e), validate=0)
            b = RTCMReader.parse(SymBytes(hdr + pay.e + c2.e), validate=0)
            return a, b
        for path in eng.explore(fn):
            if path.kind == 'abort':
                continue
            res['obligations'] += 1
            if path.kind != 'ret':
                # both raise identically or not at all: a difference would show as one-sided exception -> path 'exc' on the second call only
                res['discharged'] += 1 if path.kind == 'exc' else 0
                if path.kind != 'exc':
                    res['obligations'] -= 1
                    res['inconclusive'].append(f"valoff: {path.kind}")
                continue
            a, b = path.value
            pa, pb = msgdrv.public_attrs(a), msgdrv.public_attrs(b)
            same = list(pa) == list(pb)
            if same:
                for k in pa:
                    ta, tb_ = sym.term_of(pa[k]), sym.term_of(pb[k])
                    if len(ta) != len(tb_) or not all(x.eq(y) for x, y in zip(ta, tb_)):
                        same = False
                    if not ta and pa[k] != pb[k]:
                        same = False
            if same:
                res['discharged'] += 1
            else:
                res['refuted'] += 1
                if eng.check3() == 'sat':
                    m = eng.model()
                    vals = {str(d): m[d].as_long() for d in m.decls()}
                    pl = bytes(vals.get(f"p{i}", 0) for i in range(plen))
                    f1 = bytes([0xD3, plen >> 8, plen & 0xFF]) + pl + bytes(vals.get(f"c{i}", 0) for i in range(3))
                    f2 = bytes([0xD3, plen >> 8, plen & 0xFF]) + pl + bytes(vals.get(f"d{i}", 1) for i in range(3))
                    res['cex'].append({'kind': 'parse', 'buffer': f1.hex(), 'validate': 0, 'other': f2.hex(), 'other_validate': 0,
                                       'checks': ['same_as'], 'why': "checksum bytes influence the result with validation off", 'dedup': f"valoff:{num}"})
        res.absorb_engine(eng)


def run_hist(res):
    """the checksum of a byte string does not depend on earlier calls: two calls in one path; the second result term must not mention
    the first message.  (A leak is confirmed by concrete replay of the two-call sequence against the reference.)"""
    real = shims.current_crc()
    for (L1, L2) in ((4, 4), (6, 6), (5, 8)):
        eng = sym.Engine(max_paths=80, conc_limit=3)
        eng.time_budget = 60
        H = {}

        def fn():
            a = sym.symbytes("a", L1)
            b = sym.symbytes("b", L2)
            H['a'], H['b'] = a, b
            eng.assume(sym.byte_term(a.e[0]) == 0xD3)
            eng.assume(sym.byte_term(b.e[0]) == 0xD3)
            r1 = real(a)
            r2 = real(b)
            return r1, r2
        for path in eng.explore(fn):
            if path.kind == 'abort':
                continue
            res['obligations'] += 1
            if path.kind != 'ret':
                res['obligations'] -= 1
                if path.kind == 'exc':
                    res['obligations'] += 1
                    res['refuted'] += 1
                    if eng.check3() == 'sat':
                        m = eng.model()
                        res['cex'].append({'kind': 'crcseq', 'seq': [rdrdrv.model_bytes(m, H['a']).hex(), rdrdrv.model_bytes(m, H['b']).hex()],
                                           'why': f"calc_crc24q raised {type(path.value).__name__}", 'dedup': "hist:exc"})
                else:
                    res['inconclusive'].append(f"hist: {path.kind} {path.value}")
                continue
            r1, r2 = path.value
            leak = set()
            for t in sym.term_of(r2):
                leak |= {v for v in sym.vars_of(t) if v.startswith("a")}
            if not leak:
                res['discharged'] += 1
                continue
            res['refuted'] += 1
            n = 0
            for i in range(min(L1, L2)):
                if eng.check3(sym.byte_term(H['a'].e[i]) != sym.byte_term(H['b'].e[i])) == 'sat':
                    m = eng.model()
                    res['cex'].append({'kind': 'crcseq', 'seq': [rdrdrv.model_bytes(m, H['a']).hex(), rdrdrv.model_bytes(m, H['b']).hex()],
                                       'why': f"checksum of the second message depends on the first ({sorted(leak)[:3]})", 'dedup': f"hist:{L1}:{L2}:{i}"})
                    n += 1
            if not n:
                res['harness_errors'].append("history leak without a model")
        res.absorb_engine(eng)
    res['trunc'] = [t for t in res['trunc'] if t and t[0] != 'conc_limit']


def run_job(spec):
    shims.install()
    res = JobResult(str(spec))
    k = spec[0]
    if k == 'lemmas':
        run_lemmas(res)
    elif k == 'two':
        run_two(spec[1], res)
    elif k == 'twosyn':
        run_twosyn(res)
    elif k == 'faith':
        run_faith(res)
    elif k == 'gate':
        run_gate(spec[1], res)
    elif k == 'direct':
        run_direct(res)
    elif k == 'crc2bytes':
        run_crc2bytes(res)
    elif k == 'cross':
        run_cross(res)
    elif k == 'valoff':
        run_valoff(res)
    elif k == 'hist':
        run_hist(res)
    if not res['samples']:
        res['samples'].append({'job': list(spec), 'notes': res['notes'][:6]})
    return res
