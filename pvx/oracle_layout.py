"""Independent layout walker (oracle).  Re-implements, from the property text, how a payload definition
lays fields out; shares no code with rtcmmessage.py.  It reads the repository's *tables* (C03 is
relative to the definitions; C10 pins the tables themselves).  No z3 in here."""


class BadDefinition(Exception):
    pass


DERIVED = ("PRN", "CPR", "CSG")


def tables():
    from pyrtcm import rtcmtypes_core as tc
    from pyrtcm.rtcmtypes_get import RTCM_PAYLOADS_GET
    from pyrtcm.rtcmtypes_get_msm import RTCM_PAYLOADS_GET_MSM
    from pyrtcm.rtcmtypes_get_igs import RTCM_PAYLOADS_GET_IGS
    allp = {}
    allp.update(RTCM_PAYLOADS_GET)
    allp.update(RTCM_PAYLOADS_GET_MSM)
    allp.update(RTCM_PAYLOADS_GET_IGS)
    return {
        'fields': tc.RTCM_DATA_FIELDS,
        'payloads': allp,
        'std': RTCM_PAYLOADS_GET, 'msm': RTCM_PAYLOADS_GET_MSM, 'igs': RTCM_PAYLOADS_GET_IGS,
        'NSAT': getattr(tc, 'NSAT', 'NSat'), 'NSIG': getattr(tc, 'NSIG', 'NSig'),
        'NCELL': getattr(tc, 'NCELL', 'NCell'),
        'NHC': getattr(tc, 'NHARMCOEFFC', '_NHarmCoeffC'), 'NHS': getattr(tc, 'NHARMCOEFFS', '_NHarmCoeffS'),
    }


def suffix(idx):
    return "".join("_%02d" % i for i in idx)


class Field:
    __slots__ = ("name", "key", "idx", "off", "w", "typ", "res")

    def __init__(self, name, key, idx, off, w, typ, res):
        self.name, self.key, self.idx, self.off, self.w, self.typ, self.res = name, key, tuple(idx), off, w, typ, res

    def __repr__(self):
        return f"Field({self.name}@{self.off}+{self.w} {self.typ} res={self.res})"


class Layout:
    def __init__(self, identity):
        self.identity = identity
        self.fields = []
        self.total = 0
        self.struct = []    # (name, off, w, what, value): structural reads (counters, flags, popcounts)
        self.derived = {}   # NSat / NSig / NCell / coefficient counts

    def names(self):
        """public attribute names the layout predicts, in order (STR units joined into one attribute)"""
        out = []
        for f in self.fields:
            n = f.key if f.typ == "STR" else f.name
            if n not in out:
                out.append(n)
        return out

    def by_name(self):
        return {f.name: f for f in self.fields}


def validate_shape(d, where=""):
    """a payload definition is a dict of str -> str | (count, dict) with count int | str | (str, value)"""
    if not isinstance(d, dict):
        raise BadDefinition(f"{where}: group body is {type(d).__name__}, not dict")
    for k, v in d.items():
        if not isinstance(k, str):
            raise BadDefinition(f"{where}: key {k!r} is not str")
        if isinstance(v, tuple):
            if len(v) != 2:
                raise BadDefinition(f"{where}.{k}: group tuple of length {len(v)}")
            c, sub = v
            if isinstance(c, tuple):
                if len(c) != 2 or not isinstance(c[0], str):
                    raise BadDefinition(f"{where}.{k}: bad condition {c!r}")
            elif not isinstance(c, (int, str)):
                raise BadDefinition(f"{where}.{k}: bad count {c!r}")
            validate_shape(sub, f"{where}.{k}")
        elif not isinstance(v, str):
            raise BadDefinition(f"{where}.{k}: value is {type(v).__name__}")


def walk(identity, valueof, tb=None):
    """valueof(name, off, w, what) -> int for structural reads; what in {'value', 'popcount'}.
    Returns Layout.  Raises BadDefinition / KeyError-free errors as BadDefinition."""
    tb = tb or tables()
    F = tb['fields']
    if identity not in tb['payloads']:
        raise BadDefinition(f"{identity}: no payload definition")
    pdef = tb['payloads'][identity]
    validate_shape(pdef, identity)
    L = Layout(identity)
    occ = {}     # attribute name -> Field
    vals = {}    # structural values already read

    def read(name, what='value'):
        if (name, what) in vals:
            return vals[(name, what)]
        if name in L.derived:
            return L.derived[name]
        if name not in occ:
            raise BadDefinition(f"{identity}: counter/condition {name!r} refers to no earlier field")
        f = occ[name]
        v = valueof(name, f.off, f.w, what)
        vals[(name, what)] = v
        L.struct.append((name, f.off, f.w, what, v))
        return v

    def single(key, idx):
        if key not in F:
            raise BadDefinition(f"{identity}: field {key!r} is not a defined data field")
        typ, w, res, _ = F[key]
        name = key + suffix(idx)
        if typ in DERIVED:
            f = Field(name, key, idx, L.total, 0, typ, res)
            L.fields.append(f)
            return
        if key == "DF396":
            w = L.derived[tb['NSAT']] * L.derived[tb['NSIG']]
        f = Field(name, key, idx, L.total, w, typ, res)
        L.fields.append(f)
        occ[name] = f
        L.total += w
        if key == "DF394":
            L.derived[tb['NSAT']] = read(name, 'popcount')
        elif key == "DF395":
            L.derived[tb['NSIG']] = read(name, 'popcount')
        elif key == "DF396":
            L.derived[tb['NCELL']] = read(name, 'popcount') if w > 0 else 0
        elif key == "IDF038":
            n = read("IDF037" + suffix(idx)) + 1
            m = read(name) + 1
            nc = (n + 1) * (n + 2) // 2 - (n - m) * (n - m + 1) // 2
            L.derived[tb['NHC']] = nc
            L.derived[tb['NHS']] = nc - (n + 1)

    def group(d, idx):
        for key, val in d.items():
            if isinstance(val, tuple):
                cnt, sub = val
                if isinstance(cnt, tuple):  # conditional group
                    cname, cval = cnt
                    if read(cname) == cval:
                        group(sub, idx)
                    continue
                if isinstance(cnt, int):
                    n = cnt
                else:
                    if "+" in cnt:
                        base, lv = cnt.split("+")
                        cname = base + suffix(idx[:int(lv)])
                    else:
                        base = cname = cnt
                    n = read(cname)
                    if base == "IDF035":   # transmitted value is the number of layers minus one
                        n += 1
                for i in range(1, n + 1):
                    group(sub, idx + [i])
            else:
                single(key, idx)

    group(pdef, [])
    return L


def structural_names(tb=None):
    """base names of every field used as a counter or condition anywhere in the tables"""
    tb = tb or tables()
    out = set()

    def scan(d):
        if not isinstance(d, dict):
            return
        for _, v in d.items():
            if isinstance(v, tuple) and len(v) == 2:
                c, sub = v
                if isinstance(c, tuple):
                    out.add(c[0])
                elif isinstance(c, str):
                    out.add(c.split("+")[0])
                scan(sub)
    for d in tb['payloads'].values():
        scan(d)
    out |= {"IDF037", "IDF038", "DF394", "DF395", "DF396"}
    return out


def ref_value_concrete(raw, w, typ, res):
    """concrete twin of the field semantics: raw unsigned bits -> attribute value"""
    if typ == "INT":
        v = raw - (1 << w) if w and raw >> (w - 1) else raw
    elif typ == "SNT":
        mag = raw & ((1 << (w - 1)) - 1)
        v = -mag if raw >> (w - 1) else mag
    elif typ == "CHA":
        return chr(raw)
    elif typ == "STR":
        return chr(raw)
    else:
        v = raw
    if res not in (0, 1):
        v = v * res
    return v
