"""Symbolic driver for RTCMReader over stream / socket doubles, with CRC-call recording."""
import z3

from . import sym, shims, msgdrv
from .sym import SymBytes, SymInt

LIBERR = None


def lib_errors():
    global LIBERR
    if LIBERR is None:
        import pyrtcm.exceptions as ex
        LIBERR = (ex.RTCMMessageError, ex.RTCMParseError, ex.RTCMStreamError, ex.RTCMTypeError)
    return LIBERR


class CrcRecorder:
    """wraps the (transformed) real calc_crc24q: records (argument, result) of every call"""

    def __init__(self, inner, hook=None):
        self.inner = inner
        self.calls = []
        self.hook = hook

    def __call__(self, msg):
        r = self.inner(msg)
        self.calls.append((msg, r))
        if self.hook is not None:
            self.hook(msg, r)
        return r


class Handler:
    def __init__(self):
        self.calls = []

    def __call__(self, err):
        self.calls.append(err)


class Run:
    """result of iterating one reader to the end"""

    def __init__(self):
        self.events = []       # ('pair', raw, parsed) | ('exc', exception)
        self.end = None        # 'stop' | ('foreign', exc) | 'budget'
        self.calls = 0
        self.crc = None
        self.handler = None
        self.stream = None
        self.reader = None

    def pairs(self):
        return [(e[1], e[2]) for e in self.events if e[0] == 'pair']


def iterate(stream, mode=1, validate=1, parsed=True, labelmsm=1, use_handler=True, max_calls=200, **kw):
    """drive next(reader) until StopIteration.  In mode 2 library exceptions are recorded and iteration continues
    with the same reader.  A foreign exception ends the run and is recorded."""
    from pyrtcm.rtcmreader import RTCMReader
    st = shims.install()
    run = Run()
    inner = kw.pop('crc_inner', None)
    hook_ = kw.get('crc_hook')
    if inner is None:
        inner = CrcSummary()
    elif inner == 'direct':
        inner = base_crc()
    rec = CrcRecorder(inner, kw.pop('crc_hook', None))
    shims.set_crc(rec)
    run.crc = rec
    run.handler = Handler() if use_handler else None
    run.stream = stream
    try:
        rdr = RTCMReader(stream, validate=validate, quitonerror=mode, labelmsm=labelmsm, parsed=parsed,
                         errorhandler=run.handler, **kw)
        run.reader = rdr
        while True:
            run.calls += 1
            if run.calls > max_calls:
                run.end = 'budget'
                break
            try:
                raw, msg = next(rdr)
                run.events.append(('pair', raw, msg))
            except StopIteration:
                run.end = 'stop'
                break
            except lib_errors() as e:
                run.events.append(('exc', e))
                if mode != 2:
                    run.end = ('escaped', e)
                    break
            except sym.EngineSignal:
                raise
            except Exception as e:  # foreign exception
                if isinstance(e, (TypeError, AttributeError)) and sym.proxy_induced(e):
                    raise sym.Unsupported(f"{type(e).__name__}: {str(e)[:120]}")     # the proxy, not the code, caused it
                run.events.append(('exc', e))
                run.end = ('foreign', e)
                break
    finally:
        shims.set_crc(rec.inner)
    return run


_FOLDS = {}


class CrcSummary:
    """fold summary of calc_crc24q (Engine K): the CRC register after a long prefix is a fresh 24-bit variable (one per
    distinct prefix, keyed on term identity); the remaining <= 8 bytes go through the extracted real loop body.
    Over-approximates behaviours (sound for universal obligations); justified by C08's obligations F1-F3."""

    def __init__(self, thresh=6):
        from . import transforms
        st = shims.install()
        fn = st['orig']['calc_crc24q']
        if _FOLDS.get('fn') is not fn:
            _FOLDS['fn'], _FOLDS['fold'] = fn, transforms.Fold(fn)     # extracted once per process
        self.fold = _FOLDS['fold']
        self.direct = base_crc()
        self.thresh = thresh
        self.summ = []
        self.nfresh = 0
        self.vars = []     # (fresh var, prefix elems)

    @staticmethod
    def _key(e):
        return e if isinstance(e, int) else ('t', e.t.get_id())

    def reset(self):
        self.summ = []
        self.nfresh = 0
        self.vars = []

    def __call__(self, msg):
        if not self.fold.ok or not isinstance(msg, SymBytes):
            return self.direct(msg)
        f = self.fold
        ks = [self._key(e) for e in msg]
        best = None
        for pk, st, _keep in self.summ:
            if len(pk) <= len(ks) and ks[:len(pk)] == pk and (best is None or len(pk) > len(best[0])):
                best = (pk, st)
        if (best is None or len(ks) - len(best[0]) > 8) and len(msg) <= self.thresh:
            # short message: exact fold from the initial state (registered, so that a later extension continues from it exactly)
            st = f.pre()
            for e in msg:
                st = f.step(*st, e)
                if not isinstance(st, tuple):
                    st = (st,)
            self.summ.append((ks, st, list(msg)))
            return f.post(*st)
        if best is None or len(ks) - len(best[0]) > 8:
            cut = len(ks) - 3
            self.nfresh += 1
            v = z3.BitVec(f"crcstate{self.nfresh}", 24)
            st0 = f.pre()
            ci = f.state.index('crc') if 'crc' in f.state else 0
            st = tuple(SymInt(z3.ZeroExt(1, v)) if i == ci else x for i, x in enumerate(st0))
            self.vars.append((v, list(msg)[:cut]))
            self.summ.append((ks[:cut], st, list(msg)[:cut]))
            best = (ks[:cut], st)
        st = best[1]
        for e in list(msg)[len(best[0]):]:
            st = f.step(*st, e)
            if not isinstance(st, tuple):
                st = (st,)
        self.summ.append((ks, st, list(msg)))
        return f.post(*st)


_BASE_CRC = None


def base_crc():
    """the if-converted real calc_crc24q (never a recorder)"""
    global _BASE_CRC
    if _BASE_CRC is None:
        c = shims.current_crc()
        while isinstance(c, (CrcRecorder, CrcSummary)):
            c = c.inner if isinstance(c, CrcRecorder) else c.direct
        _BASE_CRC = c
    return _BASE_CRC


def locate(raw, data, start):
    """offset p >= start with raw term-wise identical to data[p:p+len(raw)], or None"""
    n = len(raw)
    d = list(data)
    r = list(raw)
    for p in range(start, len(d) - n + 1):
        if all(sym.same_elem(a, b) for a, b in zip(r, d[p:p + n])):
            return p
    return None


def frame_grammar(raw):
    """z3 Bool: raw is a well-formed RTCM3 frame header with the right length field (CRC handled separately)"""
    n = len(raw)
    if n < 6:
        return z3.BoolVal(False)
    b0, b1, b2 = (sym.byte_term(x) for x in list(raw)[:3])
    ln = z3.Concat(z3.Extract(1, 0, b1), b2)
    return z3.And(b0 == 0xD3, z3.Extract(7, 2, b1) == 0, ln == n - 6)


def crc_forced_zero(eng, run, raw):
    """is there a recorded CRC call on exactly `raw` whose result the path condition forces to 0?
    returns True / False / None (no call on these bytes)"""
    found = None
    for arg, r in run.crc.calls:
        if len(arg) == len(raw) and sym.same_bytes(list(arg), list(raw)):
            if isinstance(r, int):
                if r == 0:
                    return True
                found = False
                continue
            if eng.forced(r.t == 0) is True:
                return True
            found = False
    return found


def model_bytes(model, data):
    return bytes(v if isinstance(v, int) else model.eval(sym.byte_term(v), model_completion=True).as_long() for v in data)


def fix_crcs(model, data, run):
    """concrete stream bytes for a model, with the trailers of summarised frames patched so that the REAL CRC-24Q agrees
    with the zero / non-zero decision the path took for each recorded CRC call (the summary leaves them unrelated)."""
    from . import concrete
    out = bytearray(model_bytes(model, data))
    d = list(data)
    for arg, r in run.crc.calls:
        if isinstance(r, int) or len(arg) < 6:
            continue
        p = locate(arg, d, 0)
        if p is None:
            continue
        want_zero = model.eval(r.t, model_completion=True).as_long() == 0
        n = len(arg)
        body = bytes(out[p:p + n - 3])
        good = concrete.crc24q_ref(body).to_bytes(3, "big")
        cur = bytes(out[p + n - 3:p + n])
        is_zero = cur == good
        if want_zero and not is_zero:
            out[p + n - 3:p + n] = good
        elif not want_zero and is_zero:
            out[p + n - 1] ^= 0x01
    return bytes(out)
