"""Enumeration of message structures (identity x repeat-count vector x flags x mask shapes) shared by the
constructor-based properties.  A structure is a small picklable dict; chooser(spec) turns it into the
callback the layout walker uses for structural reads."""
import random

from . import oracle_layout as ol

MSM_BASES = (1070, 1080, 1090, 1100, 1110, 1120, 1130)


def all_identities():
    tb = ol.tables()
    return sorted(tb['payloads'])


def kind_of(ident):
    tb = ol.tables()
    if ident in tb['msm']:
        return 'msm'
    if ident == "4076_201":
        return 'harm'
    if ident == "1230":
        return 'flags'
    return 'plain'


def wellformed(ident):
    try:
        ol.validate_shape(ol.tables()['payloads'][ident], ident)
        return True
    except ol.BadDefinition:
        return False


def chooser(spec):
    """spec keys: mode ('uniform' c | 'seeded' (seed, hi) | 'maxone' key), flags (int bitmask for 1230),
    nsat, nsig, cellmask ('ones' | 'zero' | int seed | None=free handled by caller), harm=(layers-1, n-1, m-1)"""
    mode = spec.get('mode', ('uniform', 1))
    rnd = random.Random(spec.get('seed', 0) * 7919 + 13)
    harm = spec.get('harm')
    flags = spec.get('flags', 0)

    def choose(name, w, what):
        top = (1 << w) - 1
        base = name.split("_")[0]
        if base in ("DF394", "DF395"):
            k = spec.get('nsat' if base == "DF394" else 'nsig', 1)
            if spec.get('maskmode') == 'high':    # the k highest IDs (satellites 64, 63, ...: outside most PRN tables; signals 32, 31: reserved)
                return ('value', (1 << k) - 1)
            if spec.get('maskmode') == 'value':   # concrete seeded positions instead of symbolic witness positions
                r2 = random.Random(spec.get('seed', 0) * 31 + (1 if base == "DF394" else 2) + k)
                v = 0
                for pos in r2.sample(range(w), k):
                    v |= 1 << pos
                return ('value', v)
            return k
        if base == "DF396":
            cm = spec.get('cellmask', 'ones')
            if cm == 'ones':
                return ('value', top)
            if cm == 'zero':
                return ('value', 0)
            if isinstance(cm, int):
                return ('value', random.Random(cm).getrandbits(w) if w else 0)
            raise ValueError(cm)
        if name.startswith("DF422_"):
            return (flags >> (int(name[6:]) - 1)) & 1
        if harm is not None:
            if base == "IDF035":
                return harm[0]
            li = int(name.rsplit("_", 1)[1]) - 1 if "_" in name else 0      # layer index: 'vary' gives every layer its own degree/order
            vary = spec.get('harmvary', 0)
            if base == "IDF037":
                return min(15, harm[1] + vary * li)
            if base == "IDF038":
                return max(0, min(15, harm[2] + vary * li * (1 if li % 2 == 0 else -1)))
        if mode[0] == 'nestzero':
            # nested counters: the first parent gets an EMPTY inner group, later parents two items; top-level counters three
            parts = name.rsplit("_", 1)
            if len(parts) == 2 and parts[1].isdigit() and len(parts[1]) >= 2:
                return 0 if int(parts[1]) == 1 else min(2, top)
            return min(3, top)
        if mode[0] == 'uniform':
            return min(mode[1], top)
        if mode[0] == 'seeded':
            return min(rnd.randint(0, mode[1]), top)
        if mode[0] == 'maxone':
            return top if base == mode[1] else min(1, top)
        raise ValueError(mode)
    return choose


def counter_keys(ident):
    """base names of the counters / conditions used by one definition"""
    tb = ol.tables()
    out = []

    def scan(d):
        if not isinstance(d, dict):
            return
        for _, v in d.items():
            if isinstance(v, tuple) and len(v) == 2:
                c, sub = v
                if isinstance(c, tuple):
                    out.append(c[0])
                elif isinstance(c, str):
                    out.append(c.split("+")[0])
                scan(sub)
    scan(tb['payloads'][ident])
    seen = []
    for k in out:
        if k not in seen:
            seen.append(k)
    return seen


def nested_counters(ident):
    tb = ol.tables()
    out = []

    def scan(d):
        if not isinstance(d, dict):
            return
        for _, v in d.items():
            if isinstance(v, tuple) and len(v) == 2:
                c, sub = v
                if isinstance(c, str) and "+" in c:
                    out.append(c)
                scan(sub)
    scan(tb['payloads'][ident])
    return out


def structures(ident, tier, seed=0):
    """list of structure specs for one identity"""
    k = kind_of(ident)
    out = []
    if k == 'msm':
        if tier == 'quick':
            out += [dict(nsat=0, nsig=0, cellmask='zero'), dict(nsat=1, nsig=1, cellmask='ones'), dict(nsat=2, nsig=1, cellmask=seed + 2),
                    dict(nsat=2, nsig=2, cellmask=seed + 5, maskmode='value', seed=seed),
                    dict(nsat=3, nsig=2, cellmask=seed + 6, maskmode='value', seed=seed + 1),
                    dict(nsat=13, nsig=5, cellmask=seed + 8, maskmode='value', seed=seed + 2)]      # 65 cells: wider than one machine word
            out.append(dict(nsat=3, nsig=2, cellmask='ones', maskmode='high'))      # several satellites without a PRN (one shared 'N/A' label)
            if ident == '1071':
                out.append(dict(nsat=26, nsig=4, cellmask='ones', maskmode='value', seed=seed + 3))  # 104 cells: three-digit cell indices
        else:
            out += [dict(nsat=0, nsig=0, cellmask='zero'), dict(nsat=1, nsig=0, cellmask='zero'),
                    dict(nsat=0, nsig=1, cellmask='zero'), dict(nsat=1, nsig=1, cellmask='ones'),
                    dict(nsat=1, nsig=1, cellmask='zero'), dict(nsat=2, nsig=1, cellmask='ones'),
                    dict(nsat=1, nsig=2, cellmask=seed + 3), dict(nsat=2, nsig=2, cellmask='ones'),
                    dict(nsat=2, nsig=2, cellmask=seed + 5), dict(nsat=3, nsig=2, cellmask=seed + 7, maskmode='value', seed=seed),
                    dict(nsat=4, nsig=4, cellmask=seed + 9, maskmode='value', seed=seed + 1), dict(nsat=8, nsig=3, cellmask=seed + 11, maskmode='value', seed=seed + 2),
                    dict(nsat=3, nsig=2, cellmask='ones', maskmode='high'), dict(nsat=5, nsig=3, cellmask=seed + 12, maskmode='high')]
    elif k == 'harm':
        hs = [(0, 0, 0), (0, 1, 0), (0, 1, 1), (1, 1, 1), (0, 2, 1), (0, 2, 5), (0, 0, 3), (1, 1, 4), (0, 15, 15)] if tier == 'quick' else \
            [(l, n, m) for l in (0, 1, 2) for n in (0, 1, 2, 3) for m in range(0, n + 1)] + \
            [(0, 15, 15), (0, 15, 0), (0, 12, 7), (3, 1, 1), (0, 2, 5), (0, 0, 3), (1, 1, 4), (0, 3, 15)]
        out += [dict(harm=h) for h in hs] + [dict(harm=(1, 1, 1), harmvary=1), dict(harm=(2, 2, 0), harmvary=2)]
    elif k == 'flags':
        out += [dict(flags=f) for f in range(16)]
    else:
        keys = counter_keys(ident)
        if not keys:
            out.append(dict(mode=('uniform', 1)))
        else:
            cs = (0, 1, 2, 3) if tier == 'quick' else (0, 1, 2, 3, 4, 5)
            out += [dict(mode=('uniform', c)) for c in cs]
            out.append(dict(mode=('seeded', 2), seed=seed + 1))
            out.append(dict(mode=('seeded', 3), seed=seed + 4))
            if any("+" in str(c) for c in nested_counters(ident)):
                out.append(dict(mode=('nestzero',)))
            if tier != 'quick':
                out += [dict(mode=('seeded', 4), seed=seed + s) for s in (2, 3)]
                out += [dict(mode=('maxone', key)) for key in keys]
            else:
                # quick: counters of 7 bits and more at their maximum (three-digit group indices), first and last such counter
                tb = ol.tables()
                wide = [key for key in keys if key in tb['fields'] and isinstance(tb['fields'][key][1], int) and tb['fields'][key][1] >= 7]
                out += [dict(mode=('maxone', key)) for key in dict.fromkeys(wide[:1] + wide[-1:])]
    return out


def fits(lay_total_bits):
    return (lay_total_bits + 7) // 8 <= 1023


def concrete_payload(ident, choose, rnd, spare=1):
    """a concrete payload for a structure: structural fields from choose(name, w, what) (masks as ('value', v)), every other bit random"""
    reads = []

    def valueof(name, off, w, what):
        v = choose(name, w, what)
        if isinstance(v, tuple):
            v = v[1]
            reads.append((off, w, v))
            return bin(v).count("1") if what == 'popcount' else v
        reads.append((off, w, v))
        return v
    lay = ol.walk(ident, valueof)
    nbytes = (lay.total + 7) // 8 + spare
    nb = 8 * nbytes
    x = rnd.getrandbits(nb)

    def put(off, w, v):
        nonlocal x
        if w == 0:
            return
        sh = nb - off - w
        x = (x & ~(((1 << w) - 1) << sh)) | ((v & ((1 << w) - 1)) << sh)
    put(0, 12, int(ident[:4]))
    if "_" in ident:
        put(15, 8, int(ident[5:]))
    for off, w, v in reads:
        put(off, w, v)
    for f in lay.fields:     # text units non-zero (the oracle's stated assumption)
        if f.typ == "STR" and (x >> (nb - f.off - f.w)) & 0xFF == 0:
            put(f.off, f.w, 0x41)
    return x.to_bytes(nbytes, "big"), lay


def random_msm_cases(ident, seed, n):
    """seeded concrete MSM payloads with deliberately awkward masks: last satellite slot, reserved IDs, several signals of one band,
    partial cell masks.  Used as additional concrete witnesses (replayed on the unmodified code), never as the deciding step."""
    from . import concrete
    rnd = random.Random(seed * 977 + int(ident))
    sigmap = concrete.repo_maps(ident[:3])[1] or {2: ("L1", "1C")}
    bands = {}
    for sid, (band, _) in sigmap.items():
        bands.setdefault(band, []).append(sid)
    out = []
    for i in range(n):
        nsat = rnd.choice((1, 2, 2, 3, 4))
        sats = set(rnd.sample(range(1, 65), nsat))
        if i % 4 == 0:
            sats.add(64)
        if i % 5 == 1:
            sats.add(rnd.choice((52, 53, 40, 25, 11, 38)))
        sigs = set()
        same = [b for b in bands.values() if len(b) >= 2]
        if same and i % 2 == 0:
            sigs |= set(rnd.sample(rnd.choice(same), 2))
        while len(sigs) < rnd.choice((1, 2, 3)):
            sigs.add(rnd.choice(list(sigmap)) if rnd.random() < 0.7 else rnd.randint(1, 32))
        if i % 3 == 2:
            sigs.add(next(x for x in rnd.sample(range(1, 33), 32) if x not in sigmap))     # a reserved signal ID, used by a cell
        m394 = sum(1 << (64 - s_) for s_ in sats)
        m395 = sum(1 << (32 - g_) for g_ in sigs)
        wc = len(sats) * len(sigs)
        if wc > 24:
            continue
        m396 = rnd.getrandbits(wc) if i % 3 == 1 else (1 << wc) - 1

        def choose(name, w, what, m394=m394, m395=m395, m396=m396):
            if name == "DF394":
                return ('value', m394)
            if name == "DF395":
                return ('value', m395)
            if name == "DF396":
                return ('value', m396)
            return 0
        pl, _ = concrete_payload(ident, choose, rnd)
        out.append(pl)
    return out
