"""C03 — every data field decodes to the value its bits encode (directed mode, all payload bits symbolic)."""
import z3

from . import sym, msgdrv, structs, oracle_layout as ol, transforms
from .core import JobResult

META = {
    "level": "model_checking",
    "functions": ["pyrtcm.rtcmmessage.RTCMMessage.__init__", "._do_attributes", "._set_attribute", "._set_attribute_group",
                  "._set_attribute_optional", "._set_attribute_single", "._getsatcellmaps", "._get_dict", ".identity"],
    "transforms": ["if-conversion of RTCMMessage._set_attribute_single", "predication of RTCMMessage._getsatcellmaps"],
    "shims": ["int", "bin (popcount)", "chr"],
    "bounds": {
        "quick": "all defined identities; every counter in {0,1,2,3} + two seeded mixed vectors; all 16 flag sets of 1230; "
                 "MSM (NSat,NSig) in {(0,0),(1,1),(2,1)} with mask positions symbolic and (2,2),(3,2) with seeded positions; 4076_201 5 (layers,N,M) shapes; "
                 "payload = needed bytes + 2 spare symbolic bytes; all payload bits symbolic",
        "thorough": "counters 0..5, four seeded mixed vectors, each counter alone at its field maximum (if <= 1023 bytes), "
                    "MSM up to 4x4, 4076_201 up to degree/order 16 (153 coefficients)"},
    "outside": "repeat counts above 4 except single maxima; IEEE rounding of value*resolution (scaling kept uninterpreted); "
               "NUL code units in text fields (assumed non-zero)",
    "assumptions": ["text (STR) code units are non-zero", "float scaling is an uninterpreted pair (raw term, constant)",
                    "definitions tables of /repo are the reference for field order/width/type (pinned separately by C10)"],
}
WALL_BUDGET = {"quick": 900, "thorough": 3000}


def jobs(tier, seed):
    out = [(ident, tier, seed) for ident in structs.all_identities()]
    out += [('selftest:proxy', tier, seed)] + [(f'selftest:frames:{i}', tier, seed) for i in range(8)]
    return out


def source_shas():
    from pyrtcm.rtcmmessage import RTCMMessage as M
    return {n: transforms.sha_of(getattr(M, n)) for n in ("_set_attribute_single", "_set_attribute_group",
                                                          "_set_attribute_optional", "_getsatcellmaps", "_do_attributes")}


def run_structure(ident, spec, res, checks=('fields', 'total'), spare=2):
    from pyrtcm.rtcmmessage import RTCMMessage
    try:
        d = msgdrv.Directed(ident, structs.chooser(spec), spare=spare)
    except ol.BadDefinition as e:
        res['notes'].append(f"{ident}: malformed definition ({e}); reported under C10")
        res.count('baddef')
        return None
    if not structs.fits(d.total):
        res.count('skipped_too_long')
        return None
    eng = sym.Engine(max_paths=64, conc_limit=8)
    label = spec.get('labelmsm', 1)

    def fn():
        p = d.build(eng)
        return RTCMMessage(payload=p, labelmsm=label)

    def cex(name, model, text):
        case = {'kind': 'construct', 'labelmsm': label, 'checks': list(checks), 'ident': ident, 'spec': spec,
                'why': text, 'dedup': f"{ident}:{name.split('_')[0]}:{text[:40] if model is None else ''}"}
        if model is None:
            if eng.check3() == 'sat':
                model = eng.model()
        if model is not None:
            case['payload'] = d.payload_from_model(model).hex()
            res['cex'].append(case)
        else:
            res['harness_errors'].append(f"{ident} {spec}: no model for refuted claim {text}")
    ok_paths = 0
    for path in eng.explore(fn):
        if path.kind == 'exc':
            res['obligations'] += 1
            res['refuted'] += 1
            cex("construct", None, f"complete payload rejected: {type(path.value).__name__}: {str(path.value)[:120]}")
            res['cex'][-1]['checks'] = ['decodable', 'total'] if res['cex'] else None
            continue
        if path.kind != 'ret':
            res['inconclusive'].append(f"{ident} {spec}: path ended as {path.kind}: {path.value}")
            continue
        ok_paths += 1
        m = path.value
        for lay, extra in msgdrv.layouts_for_path(eng, ident, d.P, d.nb):
            if lay == 'more':
                res['inconclusive'].append(f"{ident} {spec}: more than 6 structures on one path")
                break
            if lay == 'overrun' or isinstance(lay, Exception):
                res['harness_errors'].append(f"{ident} {spec}: oracle layout {lay} on a complete payload")
                continue
            bad = msgdrv.names_claim(m, lay, ident)
            res['obligations'] += 1
            if bad:
                res['refuted'] += 1
                cex("names", None, "; ".join(bad[:4]))
            else:
                res['discharged'] += 1
            claims = msgdrv.field_claims(m, lay, d.P, d.nb)
            msgdrv.discharge(eng, claims, res, cex)
        if ok_paths == 1 and len(res['witnesses']) < 3 and eng.check3() == 'sat':
            res['witnesses'].append({'kind': 'construct', 'payload': d.payload_from_model(eng.model()).hex(),
                                     'labelmsm': label, 'checks': ['fields', 'total', 'decodable']})
    if ok_paths == 0:
        res.count('structures_without_success_path')
    res.absorb_engine(eng)
    return d


def run_selftest(ident, tier, seed, res):
    from . import selftest
    if ident == 'selftest:proxy':
        bad = selftest.proxy_selftest(seed, 150 if tier == 'quick' else 1000)
        res['obligations'] += 1
        res['paths'] += 1
        res['decisions'] += 1
        if bad:
            res['harness_errors'].append(f"proxy arithmetic differs from CPython: {bad[:2]}")
        else:
            res['discharged'] += 1
            res['notes'].append("proxy self-test: random integer expressions agree with CPython")
        return
    part = int(ident.rsplit(":", 1)[1])
    frames = selftest.recorded_frames()
    lim = 5 if tier == 'quick' else 0
    # each of the 8 jobs validates its own slice of the recorded frames
    import random
    rnd = random.Random(seed + part)
    mine = frames[part::8]
    selftest_frames = mine
    orig = selftest.recorded_frames
    selftest.recorded_frames = lambda: selftest_frames
    try:
        n, diffs = selftest.transform_validation(seed + part, lim)
    finally:
        selftest.recorded_frames = orig
    res['obligations'] += 1
    res.count('frames_validated', n)
    if diffs:
        res['harness_errors'].append("transform validation: engine and plain interpreter disagree: " + "; ".join(diffs[:3]))
    else:
        res['discharged'] += 1
    res['paths'] += n
    res['decisions'] += n


def run_job(spec):
    ident, tier, seed = spec
    msgdrv.install()
    res = JobResult(ident)
    if ident.startswith('selftest'):
        run_selftest(ident, tier, seed, res)
        res['samples'].append({'selftest': ident, 'frames_validated': res['counters'].get('frames_validated', 0)})
        return res
    if not structs.wellformed(ident):
        res['notes'].append(f"{ident}: malformed definition; reported under C10")
        res.count('baddef')
        res['paths'] = 0
        return res
    n = 0
    for st in structs.structures(ident, tier, seed):
        d = run_structure(ident, st, res)
        if d is not None:
            n += 1
            if not res['samples']:
                res['samples'].append({'identity': ident, 'structure': st, 'payload_bytes': d.L, 'fields': len(d.layout.fields),
                                       'bits': d.total})
    res.count('structures', n)
    return res


def vacuity(tier, results, counters):
    errs = []
    if counters.get('structures', 0) < 100:
        errs.append(f"only {counters.get('structures', 0)} structures explored")
    return errs
