"""Runner: job scheduling over 16 cores, verdict protocol, replay, known findings, evidence."""
import hashlib
import importlib
import json
import multiprocessing as mp
import os
import subprocess
import sys
import time
import traceback

VERIF = os.path.dirname(os.path.dirname(os.path.abspath(__file__)))
REPO = os.environ.get("PVX_REPO", "/repo")

EXIT_OK, EXIT_VIOLATION, EXIT_INCONCLUSIVE, EXIT_HARNESS = 0, 1, 2, 3


def ensure_path():
    src = os.path.join(REPO, "src")
    if src not in sys.path:
        sys.path.insert(0, src)
    if VERIF not in sys.path:
        sys.path.insert(0, VERIF)


SKIPPED = []


class JobResult(dict):
    """paths, decisions, obligations, discharged, cex[], inconclusive[], witnesses[], samples[], solver_s,
    checks, notes[], trunc[]"""

    def __init__(self, name):
        super().__init__(name=name, paths=0, decisions=0, obligations=0, discharged=0, refuted=0, cex=[], inconclusive=[],
                         witnesses=[], samples=[], solver_s=0.0, checks=0, notes=[], trunc=[], wall_s=0.0,
                         harness_errors=[], counters={})

    def count(self, key, n=1):
        self['counters'][key] = self['counters'].get(key, 0) + n

    def absorb_engine(self, eng):
        self['paths'] += eng.npaths
        self['decisions'] += eng.ndecisions
        self['solver_s'] += eng.tcheck
        self['checks'] += eng.nchecks
        for t in eng.truncated:
            self['trunc'].append(list(t) if isinstance(t, tuple) else t)
        if eng.unknowns:
            self['inconclusive'].append(f"{eng.unknowns} solver unknown(s)")
        if getattr(eng, 'retries', 0):
            self.count('solver_retries', eng.retries)


def _worker(args):
    modname, spec = args
    ensure_path()
    t = time.time()
    try:
        mod = importlib.import_module(modname)
        r = mod.run_job(spec)
    except BaseException as e:  # harness failure inside a job
        r = JobResult(str(spec)[:80])
        r['harness_errors'].append("job crashed: " + "".join(traceback.format_exception(type(e), e, e.__traceback__))[-1500:])
    r['wall_s'] = time.time() - t
    try:
        from . import shims as _sh
        if _sh.SHARED_WRITES:
            r['counters']['shared_state_written'] = r['counters'].get('shared_state_written', 0) + 1
            r['notes'].append("shared state written by the code under test: " + ", ".join(sorted(_sh.SHARED_WRITES))[:300])
    except Exception:  # noqa
        pass
    r['spec'] = spec if isinstance(spec, (str, int, list, tuple, dict)) else str(spec)
    return r


def run_jobs(modname, specs, procs=None, wall_budget=None, progress=True):
    procs = procs or int(os.environ.get("PVX_PROCS", "16"))
    procs = max(1, min(procs, len(specs)))
    t0 = time.time()
    results = []
    if procs == 1 or os.environ.get("PVX_SERIAL"):
        for s in specs:
            results.append(_worker((modname, s)))
        return results, []
    ctx = mp.get_context("fork")
    pending = []
    with ctx.Pool(procs, maxtasksperchild=50) as pool:
        its = [(s, pool.apply_async(_worker, ((modname, s),))) for s in specs]
        for s, it in its:
            while True:
                try:
                    left = None if wall_budget is None else wall_budget - (time.time() - t0)
                    if left is not None and left <= 0:
                        # budget used up: collect what is ready, do not wait for the rest
                        if it.ready():
                            results.append(it.get(timeout=1))
                        else:
                            pending.append(s)
                        break
                    results.append(it.get(timeout=left))
                    break
                except mp.TimeoutError:
                    pending.append(s)
                    break
        if pending:
            pool.terminate()
    return results, pending


# ----------------------------------------------------------------------------------------------
# known findings
# ----------------------------------------------------------------------------------------------

def load_known():
    """known_findings.txt: lines `known: property=<id> key=<key> <text>` and `fixed: property=<id> <commit> <text>`"""
    known, fixed = {}, []
    p = os.path.join(VERIF, "known_findings.txt")
    if os.path.exists(p):
        for line in open(p):
            line = line.strip()
            if line.startswith("known:"):
                parts = line.split()
                pid = parts[1].split("=", 1)[1]
                key = parts[2].split("=", 1)[1]
                known.setdefault(pid, {})[key] = " ".join(parts[3:])
            elif line.startswith("fixed:"):
                fixed.append(line)
    return known, fixed


# ----------------------------------------------------------------------------------------------
# replay
# ----------------------------------------------------------------------------------------------

def save_case(pid, case):
    d = os.path.join(os.environ.get("PVX_REPLAY_DIR") or os.path.join(VERIF, "replays"), pid)
    os.makedirs(d, exist_ok=True)
    blob = json.dumps(case, sort_keys=True, default=str)
    sha = hashlib.sha1(blob.encode()).hexdigest()[:16]
    path = os.path.join(d, sha + ".json")
    with open(path, "w") as f:
        f.write(blob)
    return path


def replay_file(path, timeout=300):
    """run the case against the unmodified code in a fresh interpreter without shims.
    returns dict(reproduced=bool|None, detail=str)"""
    env = dict(os.environ)
    env["PYTHONPATH"] = os.path.join(REPO, "src") + os.pathsep + VERIF
    try:
        p = subprocess.run([sys.executable, "-m", "pvx.replay", path], capture_output=True, text=True,
                           timeout=timeout, env=env, cwd=VERIF)
    except subprocess.TimeoutExpired:
        return {"reproduced": None, "detail": f"replay timed out after {timeout}s", "hang": True}
    out = p.stdout.strip().splitlines()
    for line in reversed(out):
        if line.startswith("REPLAY "):
            try:
                return json.loads(line[7:])
            except ValueError:
                pass
    return {"reproduced": None, "detail": "replay produced no verdict: " + (p.stdout + p.stderr)[-800:]}


def replay_many(paths, procs=8):
    from concurrent.futures import ThreadPoolExecutor
    with ThreadPoolExecutor(max_workers=procs) as ex:
        return list(ex.map(replay_file, paths))


# ----------------------------------------------------------------------------------------------
# main protocol
# ----------------------------------------------------------------------------------------------

def main(pid, tier):
    ensure_path()
    seed = int(os.environ.get("VERIF_SEED", "0") or 0)
    t0 = time.time()
    modname = f"pvx.h_{pid}"
    mod = importlib.import_module(modname)
    meta = dict(getattr(mod, "META", {}))
    specs = mod.jobs(tier, seed)
    budget = getattr(mod, "WALL_BUDGET", {}).get(tier)
    print(f"[{pid}] tier={tier} seed={seed} jobs={len(specs)}", flush=True)
    results, pending = run_jobs(modname, specs, wall_budget=budget)
    agg = JobResult(pid)
    harness_errors, inconclusive = [], []
    cex, witnesses, samples, counters = [], [], [], {}
    for r in results:
        for k in ("paths", "decisions", "obligations", "discharged", "refuted", "checks"):
            agg[k] += r[k]
        agg['solver_s'] += r['solver_s']
        cex += r['cex']
        witnesses += r['witnesses']
        if r['samples'] and len(samples) < 6:
            samples += r['samples'][:1]
        harness_errors += [f"{r['name']}: {e}" for e in r['harness_errors']]
        inconclusive += [f"{r['name']}: {e}" for e in r['inconclusive']]
        agg['trunc'] += [[r['name']] + list(t) for t in r['trunc']]
        agg['notes'] += r['notes']
        for k, v in r['counters'].items():
            counters[k] = counters.get(k, 0) + v
    for s in pending:
        inconclusive.append(f"job {str(s)[:80]} did not finish inside the wall budget")
    if SKIPPED:
        agg['notes'].append(f"fail-fast: {SKIPPED[0]} jobs not run after the first counterexample")
    # hook for cross-job obligations
    if hasattr(mod, "finalize"):
        fin = mod.finalize(tier, seed, results)
        cex += fin.get('cex', [])
        harness_errors += fin.get('harness_errors', [])
        inconclusive += fin.get('inconclusive', [])
        agg['obligations'] += fin.get('obligations', 0)
        agg['discharged'] += fin.get('discharged', 0)
        agg['refuted'] += fin.get('refuted', 0)
        agg['notes'] += fin.get('notes', [])
        witnesses += fin.get('witnesses', [])
    # ---- replay counterexamples and witnesses against the unmodified code
    known, _fixed = load_known()
    known = known.get(pid, {})
    # de-duplicate counterexamples by their finding key (or content)
    uniq = {}
    for c in cex:
        c.setdefault('property', pid)
        k = c.get('dedup') or json.dumps(c, sort_keys=True, default=str)
        uniq.setdefault(k, c)
    cex = list(uniq.values())
    maxrep = int(os.environ.get("PVX_MAX_REPLAY", "40"))
    cex_paths = [save_case(pid, c) for c in cex[:maxrep]]
    cex_res = replay_many(cex_paths) if cex_paths else []
    violations, known_hits, nonrepro = [], {}, []
    for c, p, r in zip(cex, cex_paths, cex_res):
        if r.get('reproduced') is True:
            key = mod.classify(c, r) if hasattr(mod, "classify") else None
            if key is not None and key in known:
                known_hits.setdefault(key, (c, p))
            else:
                violations.append((c, p, r))
        elif r.get('reproduced') is False and c.get('note_if_not_reproduced'):
            # candidate from a sufficient-condition check (C13 thread clause): not confirmed concretely -> recorded, not an alarm
            agg['notes'].append(f"NOT ESTABLISHED: {c.get('why', '')[:200]} -- the concrete replay found no interference ({str(r.get('detail'))[:60]})")
            agg['refuted'] -= 1
            agg['discharged'] += 1
            print(f"NOTE: property={pid} thread clause not established by the frame condition (shared state is written); 8-thread cold-start replay found no interference")
        elif r.get('reproduced') is False and c.get('inconclusive_if_not_reproduced'):
            inconclusive.append(f"{c.get('why', '')[:200]} -- not confirmed by the concrete replay ({str(r.get('detail'))[:80]})")
        elif r.get('reproduced') is False:
            nonrepro.append((c, p, r))
        else:
            if r.get('hang') and c.get('expect_hang'):
                violations.append((c, p, r))
            else:
                nonrepro.append((c, p, r))
    wit_cases = []
    for w in witnesses:
        w.setdefault('property', pid)
        w['witness'] = True
    maxw = int(os.environ.get("PVX_MAX_WITNESS", "120" if tier == "quick" else "400"))
    # deterministic sub-sample of witnesses
    if len(witnesses) > maxw:
        step = len(witnesses) / maxw
        witnesses = [witnesses[int(i * step)] for i in range(maxw)]
    wpaths = [save_case(pid, w) for w in witnesses]
    wres = replay_many(wpaths) if wpaths else []
    wit_ok = 0
    for w, p, r in zip(witnesses, wpaths, wres):
        if r.get('reproduced') is False:   # witness passes: code and oracle agree on the concrete point
            wit_ok += 1
            try:
                os.unlink(p)
            except OSError:
                pass
        elif r.get('reproduced') is True:
            # a concrete witness of a *discharged* obligation fails against the real code: either the
            # encoding is wrong or this is a violation outside what the symbolic obligation states.
            key = mod.classify(w, r) if hasattr(mod, "classify") else None
            if key is not None and key in known:
                known_hits.setdefault(key, (w, p))
            else:
                violations.append((w, p, r))
        else:
            harness_errors.append(f"witness replay gave no verdict: {r.get('detail')}")
    # ---- verdict
    for key, (c, p) in sorted(known_hits.items()):
        print(f"KNOWN-FINDING: property={pid} {key}: {known[key]}")
    for c, p, r in violations:
        print(f"VIOLATION property={pid} replay={p}")
        print(f"  detail: {str(r.get('detail'))[:300]}")
    for c, p, r in nonrepro:
        harness_errors.append(f"counterexample did not reproduce ({p}): {str(r.get('detail'))[:300]}")
    if len(cex) > maxrep:
        agg['notes'].append(f"{len(cex) - maxrep} further counterexamples not replayed (cap {maxrep})")
    vacuity = getattr(mod, "vacuity", None)
    if vacuity is not None:
        vac = vacuity(tier, results, counters)
        if vac and inconclusive and not violations:
            inconclusive += [f"vacuity: {v}" for v in vac]     # nothing was decided because the code could not be encoded: inconclusive, not a harness fault
        else:
            harness_errors += vac
    if agg['paths'] == 0 and not meta.get('pathless'):
        harness_errors.append("no path explored")
    wall = time.time() - t0
    ev = {
        "property_id": pid, "tier": tier, "seed": seed, "level": meta.get("level", "model_checking"),
        "coverage": {
            "states": max(agg['paths'], 1) if not harness_errors else agg['paths'],
            "transitions": max(agg['decisions'], 1) if not harness_errors else agg['decisions'],
            "traces_validated_against_impl": wit_ok,
            "samples": samples[:6] or [{"note": "no sample recorded"}],
            "obligations": agg['obligations'], "discharged": agg['discharged'], "refuted": agg['refuted'],
            "structures": len(specs), "solver_checks": agg['checks'], "solver_s": round(agg['solver_s'], 2),
            "unknown": len(inconclusive), "truncations": agg['trunc'][:40],
            "n_truncations": len(agg['trunc']),
            "functions_encoded": meta.get("functions", []), "transforms": meta.get("transforms", []),
            "shims_and_doubles": meta.get("shims", []), "bounds": meta.get("bounds", {}).get(tier, ""),
            "outside_bounds": meta.get("outside", ""), "counters": counters,
            "counterexamples_found": len(cex), "known_findings_hit": sorted(known_hits),
            "notes": agg['notes'][:40], "harness_errors": harness_errors[:20], "inconclusive": inconclusive[:20],
            "jobs_slowest": sorted(((round(r['wall_s'], 1), r['name']) for r in results), reverse=True)[:5],
        },
        "assumptions": meta.get("assumptions", []),
        "wall_s": round(wall, 2), "violations": len(violations),
    }
    if hasattr(mod, "source_shas"):
        ev["coverage"]["function_sha1"] = mod.source_shas()
    try:   # the encoding is regenerated from these files on every run
        import glob
        ev["coverage"]["source_sha1"] = {os.path.basename(f): hashlib.sha1(open(f, "rb").read()).hexdigest()[:12]
                                         for f in sorted(glob.glob(os.path.join(REPO, "src", "pyrtcm", "*.py")))}
        ev["coverage"]["repo"] = REPO
    except OSError:
        pass
    evdir = os.environ.get("PVX_EVIDENCE_DIR") or os.path.join(VERIF, "evidence")
    os.makedirs(evdir, exist_ok=True)
    with open(os.path.join(evdir, f"{pid}.json"), "w") as f:
        json.dump(ev, f, indent=1, default=str)
    print(f"[{pid}] paths={agg['paths']} decisions={agg['decisions']} obligations={agg['obligations']} "
          f"discharged={agg['discharged']} cex={len(cex)} violations={len(violations)} known={len(known_hits)} "
          f"witness_replays_ok={wit_ok}/{len(witnesses)} solver={agg['solver_s']:.1f}s wall={wall:.1f}s")
    if violations:
        return EXIT_VIOLATION
    if harness_errors:
        for e in harness_errors[:10]:
            print(f"HARNESS-ERROR: {e}")
        return EXIT_HARNESS
    if inconclusive:
        for e in inconclusive[:10]:
            print(f"INCONCLUSIVE: {e}")
        return EXIT_INCONCLUSIVE
    if agg['obligations'] != agg['discharged'] + agg['refuted']:
        print(f"INCONCLUSIVE: {agg['obligations'] - agg['discharged'] - agg['refuted']} obligations neither discharged nor refuted")
        return EXIT_INCONCLUSIVE
    return EXIT_OK


if __name__ == "__main__":
    sys.exit(main(sys.argv[1], sys.argv[2] if len(sys.argv) > 2 else os.environ.get("VERIF_TIER", "quick")))
