"""Engine S: shadow symbolic execution of real Python code with z3-backed proxy values.

The unmodified functions of /repo/src/pyrtcm run under CPython with proxy values (exact-width
bit-vector integers, symbolic bytes/strings, guarded containers).  A branch on a symbolic condition
forks by deterministic re-execution along a decision trail (DFS); every fork is checked for
feasibility by the solver.  See DESIGN.md section 3.

All engine-internal signals derive from BaseException because pyrtcm wraps decoding in
`except Exception` and would otherwise relabel an engine limitation as a library error.
"""
import time
import z3

# ----------------------------------------------------------------------------------------------
# signals
# ----------------------------------------------------------------------------------------------


class EngineSignal(BaseException):
    pass


class Abort(EngineSignal):
    """infeasible path (replay diverged or assumption unsatisfiable)"""


class Unsupported(EngineSignal):
    """operation a proxy cannot model"""


class Budget(EngineSignal):
    """decision budget of one path exhausted (possible non-termination)"""


class SolverUnknown(EngineSignal):
    """solver answered unknown / timed out"""


class CannotMerge(EngineSignal):
    """two values of a predicated branch cannot be merged into one term"""


ENG = None  # the engine of the current process
PATH_RESET_HOOKS = []   # callables run at the start of every path (shared-state reset of the code under test)


def engine():
    return ENG


_PROXY_NAMES = ("SymBytes", "SymInt", "SymStr", "SymBool", "SymLabel", "SymDict", "SymList", "SymScaled", "IntShim", "IntTable", "SymBytesIO",
                "SymView", "StrKeyMap", "MergedList")


def proxy_induced(ex):
    seen = 0
    while ex is not None and seen < 6:
        if any(n in str(ex) for n in _PROXY_NAMES):
            return True
        ex = ex.__cause__ or ex.__context__
        seen += 1
    return False


class Path:
    """outcome of one explored path"""

    __slots__ = ("kind", "value", "pc", "decisions", "truncated", "info")

    def __init__(self, kind, value, pc, decisions, truncated, info):
        self.kind = kind  # 'ret' | 'exc' | 'abort' | 'unsupported' | 'budget' | 'unknown' | 'nomerge'
        self.value = value
        self.pc = pc
        self.decisions = decisions
        self.truncated = truncated
        self.info = info


class Engine:
    def __init__(self, max_paths=100000, conc_limit=64, conc_small=0, max_decisions=20000,
                 query_timeout_ms=60000, seed=0):
        global ENG
        ENG = self
        self.max_paths = max_paths
        self.conc_limit = conc_limit      # max distinct values enumerated at one concretisation point
        self.conc_small = conc_small      # values 0..conc_small-1 are preferred / enumerated first
        self.conc_prefer = []             # further preferred values (tried after the small ones)
        self.time_budget = None           # wall-clock cap of one explore() in seconds (exceeding it is a truncation)
        self.max_decisions = max_decisions
        self.query_timeout_ms = query_timeout_ms
        self.seed = seed
        self.trail = []
        self.pos = 0
        self.solver = None
        self.pc = []
        self._model = None
        self.nchecks = 0
        self.tcheck = 0.0
        self.npaths = 0
        self.ndecisions = 0
        self.truncated = []       # engine-wide truncation records (bounds hit)
        self.path_trunc = []
        self.fresh = 0
        self.info = {}
        self.unknowns = 0
        self.retries = 0
        self.retry_unknown = True
        self._retry_solver = None

    # ---- solver helpers ----------------------------------------------------------------------
    def _new_solver(self):
        s = z3.Solver()
        s.set("timeout", self.query_timeout_ms)
        if self.seed:
            s.set("random_seed", self.seed & 0x7FFFFFFF)
        return s

    def _solve(self, assume):
        """one query; a give-up (time limit) is retried once in a fresh solver with another seed and three times the limit
        (a loaded machine must not turn a decidable query into 'unknown')"""
        self._retry_solver = None
        r = self.solver.check(*assume)
        if r == z3.unknown and self.retry_unknown and not getattr(self, '_deadline_passed', lambda: False)():
            s2 = z3.Solver()
            s2.set("timeout", min(self.query_timeout_ms * 3, 900000))
            s2.set("random_seed", 7 + (self.seed & 0xFFFF))
            s2.add(*self.solver.assertions())
            r2 = s2.check(*assume)
            self.retries += 1
            if r2 != z3.unknown:
                self._retry_solver = s2
                return r2
        return r

    def check(self, *assume):
        """satisfiability of pc ∧ assume: True / False; raises SolverUnknown"""
        t = time.time()
        r = self._solve(assume)
        self.tcheck += time.time() - t
        self.nchecks += 1
        if r == z3.unknown:
            self.unknowns += 1
            raise SolverUnknown(self.solver.reason_unknown())
        return r == z3.sat

    def check3(self, *assume):
        """like check but returns 'sat' / 'unsat' / 'unknown' without raising"""
        t = time.time()
        r = self._solve(assume)
        self.tcheck += time.time() - t
        self.nchecks += 1
        if r == z3.unknown:
            self.unknowns += 1
        return str(r)

    def model(self):
        if self._retry_solver is not None:
            return self._retry_solver.model()
        return self.solver.model()

    def fresh_name(self, base):
        self.fresh += 1
        return f"{base}!{self.fresh}"

    def assume(self, c):
        if isinstance(c, SymBool):
            c = c.t
        self._assume_s(z3.simplify(c))

    def _assume_s(self, c):
        """add an already simplified constraint"""
        if z3.is_true(c):
            return
        self.solver.add(c)
        self.pc.append(c)
        self._note_literals(c)
        if self._model is not None:
            try:
                if not z3.is_true(self._model.eval(c, model_completion=True)):
                    self._model = None
            except z3.Z3Exception:
                self._model = None

    def _note_literals(self, c):
        """remember asserted literals so that a later decision on the same literal needs no solver call"""
        st = [c]
        while st:
            x = st.pop()
            if z3.is_and(x):
                st.extend(x.children())
                continue
            self._lit_true[x.get_id()] = x
            if z3.is_not(x):
                y = x.arg(0)
                self._lit_false[y.get_id()] = y

    def _sat_with_model(self, c):
        """is pc ∧ c satisfiable; uses and refreshes the cached model"""
        if self._model is not None:
            try:
                if z3.is_true(self._model.eval(c, model_completion=True)):
                    return True
            except z3.Z3Exception:
                pass
        ok = self.check(c)
        if ok:
            self._alt_model = self.model()
        return ok

    def _tick(self):
        self.ndecisions += 1
        self._pathdec += 1
        if self._pathdec > self.max_decisions:
            raise Budget(f"more than {self.max_decisions} decisions on one path")
        if self.time_budget is not None and (self._pathdec & 15) == 0 and time.time() - self._t_start > 2 * self.time_budget:
            raise Abort("time budget of this exploration exhausted")

    def decide(self, c):
        """fork point on a boolean term"""
        if isinstance(c, SymBool):
            c = c.t
        rk = c.get_id()
        if rk in self._decided_raw:
            return self._decided_raw[rk]
        raw = c
        r = self._decide_s(z3.simplify(c))
        self._decided_raw[rk] = r
        self._keep.append(raw)
        return r

    def _decide_s(self, c):
        if z3.is_true(c):
            return True
        if z3.is_false(c):
            return False
        ck = c.get_id()
        if ck in self._decided:
            return self._decided[ck]
        if ck in self._lit_true:
            return True
        if ck in self._lit_false:
            return False
        r = self._decide(c)
        self._decided[ck] = r
        self._keep.append(c)
        return r

    def _decide(self, c):
        self._tick()
        if self.pos < len(self.trail):
            e = self.trail[self.pos]
            self.pos += 1
            if e[0] != 'b':
                raise Abort("replay diverged (expected value entry)")
            d = e[1]
            self._assume_s(c if d else z3.Not(c))
            return d
        nc = z3.Not(c)
        # use the cached model to avoid one of the two solver calls
        mval = None
        if self._model is not None:
            try:
                v = self._model.eval(c, model_completion=True)
                mval = True if z3.is_true(v) else (False if z3.is_false(v) else None)
            except z3.Z3Exception:
                mval = None
        if mval is True:
            t_ok = True
            f_ok = self.check(nc)
        elif mval is False:
            f_ok = True
            t_ok = self.check(c)
        else:
            t_ok = self.check(c)
            if t_ok:
                self._model = self.model()
            f_ok = self.check(nc)
            if f_ok and not t_ok:
                self._model = self.model()
        if t_ok and f_ok:
            self.trail.append(['b', True, True])
            self.pos += 1
            self._assume_s(c)
            return True
        if t_ok:
            self.trail.append(['b', True, False])
            self.pos += 1
            self._assume_s(c)
            return True
        if f_ok:
            self.trail.append(['b', False, False])
            self.pos += 1
            self._assume_s(nc)
            return False
        raise Abort("infeasible path")

    def forced(self, c, timeout_ms=None):
        """is the boolean term c forced by the path condition?  True / False (forced false) / None (neither or unknown).
        Decision literals are answered syntactically; otherwise the solver is asked."""
        if isinstance(c, SymBool):
            c = c.t
        rk = c.get_id()
        if rk in self._decided_raw:
            return self._decided_raw[rk]
        if z3.is_not(c) and c.arg(0).get_id() in self._decided_raw:
            return not self._decided_raw[c.arg(0).get_id()]
        if (z3.is_eq(c) or z3.is_distinct(c)) and c.num_args() == 2:
            # x == 0 versus the decided x != 0: the two spellings of one truth test
            for a0, a1 in ((c.arg(0), c.arg(1)), (c.arg(1), c.arg(0))):   # z3 may reorder the arguments of =
                alt = z3.Distinct(a0, a1) if z3.is_eq(c) else z3.BoolRef(z3.Z3_mk_eq(a0.ctx_ref(), a0.as_ast(), a1.as_ast()), a0.ctx)
                if alt.get_id() in self._decided_raw:
                    return not self._decided_raw[alt.get_id()]
        c = z3.simplify(c)
        if z3.is_true(c):
            return True
        if z3.is_false(c):
            return False
        k = c.get_id()
        if k in self._lit_true:
            return True
        if k in self._lit_false:
            return False
        if z3.is_not(c):
            k2 = c.arg(0).get_id()
            if k2 in self._lit_true:
                return False
            if k2 in self._lit_false:
                return True
        if self.check3(z3.Not(c)) == 'unsat':
            return True
        if self.check3(c) == 'unsat':
            return False
        return None

    def unique(self, t):
        """the single value t can take under the path condition, or None"""
        t = z3.simplify(t)
        if z3.is_bv_value(t):
            return t.as_signed_long()
        k = t.get_id()
        if k in self._uniq:
            return self._uniq[k]
        m = self._model
        if m is None:
            if not self.check():
                raise Abort("infeasible")
            m = self._model = self.model()
        v = m.eval(t, model_completion=True)
        if self.check(t != v):
            return None
        r = v.as_signed_long()
        self._uniq[k] = r
        self._keep.append(t)
        return r

    def concretize(self, t, limit=None, small=None):
        """fork over the feasible values of a bit-vector term (signed reading)"""
        t = z3.simplify(t)
        if z3.is_bv_value(t):
            return t.as_signed_long()
        k = t.get_id()
        if k in self._uniq:
            return self._uniq[k]
        self._tick()
        if self.pos < len(self.trail):
            e = self.trail[self.pos]
            self.pos += 1
            if e[0] != 'v':
                raise Abort("replay diverged (expected branch entry)")
            v = e[1]
            self.assume(t == v)
            self._uniq[k] = v
            self._keep.append(t)
            return v
        limit = self.conc_limit if limit is None else limit
        small = self.conc_small if small is None else small
        v = None
        W = t.size()
        prefer = [x for x in list(range(small)) + [x for x in self.conc_prefer if x >= small or x < 0]
                  if -(1 << (W - 1)) <= x < (1 << (W - 1))]      # only values the term can denote (signed reading)
        for i in prefer:
            if self._sat_with_model(t == i):
                v = i
                break
        if v is None:
            m = self._model
            if m is None:
                if not self.check():
                    raise Abort("infeasible")
                m = self._model = self.model()
            v = m.eval(t, model_completion=True).as_signed_long()
        # eager uniqueness test on the live incremental solver
        more = self.check(t != v)
        self._uniq[k] = v
        self._keep.append(t)
        if not more:
            self.trail.append(['v', v, None])
        else:
            self.trail.append(['v', v, {'t': t, 'pre': list(self.pc), 'tried': [v], 'limit': limit,
                                        'small': prefer, 'solver': None}])
        self.pos += 1
        self._model = None
        self.assume(t == v)
        return v

    def _alt_value(self, e):
        st = e[2]
        if st is None:
            return False
        t = st['t']
        if st['solver'] is None:
            s = self._new_solver()
            s.add(*st['pre'])
            s.add(t != st['tried'][0])
            st['solver'] = s
            st['pre'] = None
        s = st['solver']
        if len(st['tried']) >= st['limit']:
            r = s.check()
            if r == z3.sat:
                self.truncated.append(('conc_limit', st['limit'], str(t)[:80]))
            elif r == z3.unknown:
                self.unknowns += 1
                self.truncated.append(('unknown', str(t)[:80]))
            return False
        v = None
        for i in st['small']:
            if i in st['tried']:
                continue
            r = s.check(t == i)
            self.nchecks += 1
            if r == z3.sat:
                v = i
                break
            if r == z3.unknown:
                self.unknowns += 1
        if v is None:
            r = s.check()
            self.nchecks += 1
            if r == z3.unknown:
                self.unknowns += 1
                self.truncated.append(('unknown', str(t)[:80]))
                return False
            if r != z3.sat:
                return False
            v = s.model().eval(t, model_completion=True).as_signed_long()
        st['tried'].append(v)
        s.add(t != v)
        e[1] = v
        return True

    # ---- exploration -------------------------------------------------------------------------
    def explore(self, fn):
        """run fn() once per feasible path; yields Path objects.  While a Path is being consumed the
        engine's solver still holds its path condition, so obligations can be checked with
        eng.check(...)."""
        self.trail = []
        t_start = self._t_start = time.time()
        armed = False
        if self.time_budget is not None:
            try:
                import signal

                def _on_alarm(signum, frame):
                    raise Abort("time budget of this exploration exhausted")
                signal.signal(signal.SIGALRM, _on_alarm)
                signal.setitimer(signal.ITIMER_REAL, 2 * self.time_budget + 1)
                armed = True
            except (ValueError, OSError):
                armed = False
        try:
            yield from self._explore(fn, t_start)
        finally:
            if armed:
                import signal
                signal.setitimer(signal.ITIMER_REAL, 0)

    def begin_run(self):
        """reset the per-path state (also usable without explore() for straight-line symbolic evaluation)"""
        self.solver = self._new_solver()
        self.pc = []
        self.pos = 0
        self._model = None
        self._alt_model = None
        self._uniq = {}
        self._decided = {}
        self._decided_raw = {}
        self._lit_true = {}
        self._lit_false = {}
        self._keep = []
        self._pathdec = 0
        self.path_trunc = []
        self.info = {}
        self.fresh = 0
        if not hasattr(self, '_t_start'):
            self._t_start = time.time()
        reset_guards()
        for h in PATH_RESET_HOOKS:
            h()

    def _explore(self, fn, t_start):
        while True:
            if self.time_budget is not None and time.time() - t_start > self.time_budget:
                self.truncated.append(('time_budget', self.time_budget))
                return
            self.begin_run()
            try:
                out = ('ret', fn())
            except Abort as a:
                out = ('abort', a)
            except Unsupported as u:
                out = ('unsupported', u)
            except Budget as b:
                out = ('budget', b)
            except SolverUnknown as u:
                out = ('unknown', u)
            except CannotMerge as c:
                out = ('nomerge', c)
            except Exception as ex:  # the code under test raised
                out = ('exc', ex)
                if isinstance(ex, (TypeError, AttributeError)) and proxy_induced(ex):
                    # a builtin or C-level API rejected a proxy value: an engine limitation, not behaviour of the code under test
                    out = ('unsupported', Unsupported(f"proxy reached an operation it cannot model: {ex}"))
            self.npaths += 1
            if self.pos < len(self.trail):
                # the run ended before consuming the replay prefix: drop the unreachable tail
                del self.trail[self.pos:]
            yield Path(out[0], out[1], list(self.pc), self._pathdec, list(self.path_trunc), self.info)
            if self.npaths >= self.max_paths:
                self.truncated.append(('max_paths', self.max_paths))
                return
            while self.trail:
                e = self.trail[-1]
                if e[0] == 'b':
                    if e[2]:
                        e[1] = not e[1]
                        e[2] = False
                        break
                    self.trail.pop()
                else:
                    if self._alt_value(e):
                        break
                    self.trail.pop()
            if not self.trail:
                return


# ----------------------------------------------------------------------------------------------
# bit-vector helpers
# ----------------------------------------------------------------------------------------------

def fit(c):
    """width needed for concrete int c in signed representation"""
    return c.bit_length() + 1


def bv(c, w):
    return z3.BitVecVal(c, w)


def sx(t, w):
    d = w - t.size()
    return z3.SignExt(d, t) if d > 0 else t


def tob(x):
    if isinstance(x, SymBool):
        return x.t
    if isinstance(x, SymInt):
        return x.t != 0
    if isinstance(x, z3.BoolRef):
        return x
    return z3.BoolVal(bool(x))


class SymBool:
    __slots__ = ("t",)

    def __init__(self, t):
        self.t = t

    def __bool__(self):
        return ENG.decide(self.t)

    def __and__(self, o):
        return SymBool(z3.And(self.t, tob(o)))

    __rand__ = __and__

    def __or__(self, o):
        return SymBool(z3.Or(self.t, tob(o)))

    __ror__ = __or__

    def __xor__(self, o):
        return SymBool(z3.Xor(self.t, tob(o)))

    def __invert__(self):
        return SymBool(z3.Not(self.t))

    def __eq__(self, o):
        return SymBool(self.t == tob(o))

    def __ne__(self, o):
        return SymBool(self.t != tob(o))

    def __hash__(self):
        return hash(bool(self))

    def __index__(self):
        return 1 if ENG.decide(self.t) else 0

    def __repr__(self):
        return f"SymBool({z3.simplify(self.t)})"


class SymInt:
    """Python int as a signed bit-vector that is always wide enough: no operation wraps."""
    __slots__ = ("t", "_b8")

    def __init__(self, t):
        self.t = t
        self._b8 = None

    @property
    def w(self):
        return self.t.size()

    @staticmethod
    def lift(x):
        if isinstance(x, SymInt):
            return x
        if isinstance(x, SymBool):
            return SymInt(z3.If(x.t, bv(1, 2), bv(0, 2)))
        if isinstance(x, bool):
            x = int(x)
        if isinstance(x, int):
            return SymInt(bv(x, fit(x)))
        return None

    def _bin(self, o, f, extra):
        o2 = SymInt.lift(o)
        if o2 is None:
            return NotImplemented
        W = max(self.w, o2.w) + extra
        return SymInt(f(sx(self.t, W), sx(o2.t, W)))

    def __add__(self, o):
        if isinstance(o, float):
            raise Unsupported("int + float")
        return self._bin(o, lambda a, b: a + b, 1)

    __radd__ = __add__

    def __sub__(self, o):
        return self._bin(o, lambda a, b: a - b, 1)

    def __rsub__(self, o):
        o2 = SymInt.lift(o)
        if o2 is None:
            return NotImplemented
        return o2._bin(self, lambda a, b: a - b, 1)

    def __and__(self, o):
        if isinstance(o, int) and not isinstance(o, bool) and o >= 0:
            W = fit(o)
            if W <= self.w:  # result fits in the mask's width
                return SymInt(z3.Extract(W - 1, 0, self.t) & bv(o, W))
        return self._bin(o, lambda a, b: a & b, 0)

    __rand__ = __and__

    def __or__(self, o):
        return self._bin(o, lambda a, b: a | b, 0)

    __ror__ = __or__

    def __xor__(self, o):
        return self._bin(o, lambda a, b: a ^ b, 0)

    __rxor__ = __xor__

    def __invert__(self):
        return SymInt(~self.t)

    def __mul__(self, o):
        if isinstance(o, float):
            return SymScaled(self, o)
        o2 = SymInt.lift(o)
        if o2 is None:
            return NotImplemented
        W = self.w + o2.w
        return SymInt(sx(self.t, W) * sx(o2.t, W))

    __rmul__ = __mul__

    def __neg__(self):
        W = self.w + 1
        return SymInt(-sx(self.t, W))

    def __pos__(self):
        return self

    def __abs__(self):
        W = self.w + 1
        t = sx(self.t, W)
        return SymInt(z3.If(t < 0, -t, t))

    def _conc_or_unique(self):
        u = ENG.unique(self.t)
        return ENG.concretize(self.t) if u is None else u

    def __truediv__(self, o):
        a = self._conc_or_unique()
        b = o._conc_or_unique() if isinstance(o, SymInt) else o
        return a / b

    def __rtruediv__(self, o):
        return o / self._conc_or_unique()

    def __floordiv__(self, o):
        if isinstance(o, int) and o > 0 and (o & (o - 1)) == 0:
            return self >> (o.bit_length() - 1)
        a = self._conc_or_unique()
        b = o._conc_or_unique() if isinstance(o, SymInt) else o
        return a // b

    def __rfloordiv__(self, o):
        return o // self._conc_or_unique()

    def __mod__(self, o):
        if isinstance(o, int) and o > 0 and (o & (o - 1)) == 0:
            return self & (o - 1)
        a = self._conc_or_unique()
        b = o._conc_or_unique() if isinstance(o, SymInt) else o
        return a % b

    def __rmod__(self, o):
        return o % self._conc_or_unique()

    def __divmod__(self, o):
        return (self // o, self % o)

    def __pow__(self, o):
        return self._conc_or_unique() ** o

    def __lshift__(self, k):
        if isinstance(k, SymInt):
            k = ENG.concretize(k.t)
        if k < 0:
            raise ValueError("negative shift count")
        if k == 0:
            return self
        return SymInt(z3.Concat(self.t, bv(0, k)))

    def __rlshift__(self, o):
        k = ENG.concretize(self.t)
        return o << k

    def __rshift__(self, k):
        if isinstance(k, SymInt):
            k = ENG.concretize(k.t)
        if k < 0:
            raise ValueError("negative shift count")
        if k == 0:
            return self
        if k >= self.w - 1:
            return SymInt(z3.Extract(self.w - 1, self.w - 1, self.t))  # sign bit only (0 or -1)
        return SymInt(z3.Extract(self.w - 1, k, self.t))

    def __rrshift__(self, o):
        k = ENG.concretize(self.t)
        return o >> k

    def _cmp(self, o, f):
        o2 = SymInt.lift(o)
        if o2 is None:
            return NotImplemented
        W = max(self.w, o2.w)
        return SymBool(f(sx(self.t, W), sx(o2.t, W)))

    def __eq__(self, o):
        if isinstance(o, float):
            o = int(o) if o == int(o) else None
            if o is None:
                return False
        r = self._cmp(o, lambda a, b: a == b)
        return False if r is NotImplemented else r

    def __ne__(self, o):
        r = self._cmp(o, lambda a, b: a != b)
        return True if r is NotImplemented else r

    def __lt__(self, o):
        return self._cmp(o, lambda a, b: a < b)

    def __le__(self, o):
        return self._cmp(o, lambda a, b: a <= b)

    def __gt__(self, o):
        return self._cmp(o, lambda a, b: a > b)

    def __ge__(self, o):
        return self._cmp(o, lambda a, b: a >= b)

    def __bool__(self):
        return ENG.decide(self.t != 0)

    def __index__(self):
        return ENG.concretize(self.t)

    __int__ = __index__

    def __float__(self):
        return float(ENG.concretize(self.t))

    def __hash__(self):
        return hash(ENG.concretize(self.t))

    def __format__(self, spec):
        if spec == "":
            u = ENG.unique(self.t)
            return "<sym>" if u is None else format(u, spec)
        return format(ENG.concretize(self.t), spec)

    def __str__(self):
        return str(ENG.concretize(self.t))

    def __repr__(self):
        return f"SymInt({z3.simplify(self.t)})"

    def bit_length(self):
        return abs(self._conc_or_unique()).bit_length()

    def to_bytes(self, n, byteorder="big", signed=False):
        W = max(8 * n + 2, self.w + 1)
        t = sx(self.t, W)
        if not ENG.decide(z3.And(t >= 0, t < bv(1 << (8 * n), W))):
            raise OverflowError("int too big to convert")
        bs = [SymInt(z3.ZeroExt(1, z3.Extract(8 * i + 7, 8 * i, t))) for i in reversed(range(n))]
        if byteorder == "little":
            bs.reverse()
        return SymBytes(bs)


def popcount(x):
    """number of set bits of a non-negative SymInt (adder over the bits)"""
    w = x.w
    if w <= 1:
        return 0
    rw = max(w.bit_length() + 1, 2)
    bits = [z3.ZeroExt(rw - 1, z3.Extract(i, i, x.t)) for i in range(w - 1)]
    while len(bits) > 1:  # balanced tree
        nxt = [bits[i] + bits[i + 1] for i in range(0, len(bits) - 1, 2)]
        if len(bits) % 2:
            nxt.append(bits[-1])
        bits = nxt
    return SymInt(bits[0])


class SymScaled:
    """int * float constant, kept as an uninterpreted pair (no claim about IEEE rounding)"""
    __slots__ = ("i", "f")

    def __init__(self, i, f):
        self.i = i
        self.f = f

    def __mul__(self, o):
        if isinstance(o, int) and not isinstance(o, bool):
            return SymScaled(self.i * o, self.f)
        raise Unsupported("scaled * non-int")

    __rmul__ = __mul__

    def __repr__(self):
        return f"SymScaled({self.i!r} * {self.f})"

    def __str__(self):
        return "<scaled>"

    def __format__(self, spec):
        return "<scaled>"


_BV8 = {}


def byte_term(e):
    """8-bit term of a bytes element (cached: byte comparisons dominate the reader harnesses)"""
    if isinstance(e, int):
        t = _BV8.get(e)
        if t is None:
            t = _BV8[e] = bv(e, 8)
        return t
    t = e._b8
    if t is None:
        if e.w >= 8:
            t = z3.Extract(7, 0, e.t)
            if e.w == 9 and z3.is_app_of(e.t, z3.Z3_OP_ZERO_EXT):
                t = e.t.arg(0)                  # ZeroExt(1, x8): the byte variable itself
        else:
            t = z3.ZeroExt(8 - e.w, e.t)
        e._b8 = t
    return t


def same_elem(a, b):
    """syntactic identity of two bytes elements"""
    ai, bi = isinstance(a, int), isinstance(b, int)
    if ai and bi:
        return a == b
    if ai or bi:
        return False
    return a.t.eq(b.t) or z3.simplify(byte_term(a)).eq(z3.simplify(byte_term(b)))


def same_bytes(a, b):
    a, b = list(a), list(b)
    return len(a) == len(b) and all(same_elem(x, y) for x, y in zip(a, b))


class SymBytes:
    """bytes / bytearray content with concrete length; elements are int or SymInt in 0..255"""

    def __init__(self, elems=(), mutable=False):
        self.e = list(elems)
        self.mutable = mutable      # True: stands for a bytearray (+= extends in place, aliasing visible); False: bytes

    def __len__(self):
        return len(self.e)

    def __getitem__(self, i):
        if isinstance(i, slice):
            i = slice(_cidx(i.start), _cidx(i.stop), _cidx(i.step))
            return SymBytes(self.e[i], self.mutable)
        return self.e[_cidx(i)]

    def __iter__(self):
        return iter(self.e)

    def __add__(self, o):
        if isinstance(o, (bytes, bytearray)):
            return SymBytes(self.e + list(o))
        if isinstance(o, SymBytes):
            return SymBytes(self.e + o.e)
        return NotImplemented

    def __radd__(self, o):
        if isinstance(o, (bytes, bytearray)):
            return SymBytes(list(o) + self.e, isinstance(o, bytearray))
        return NotImplemented

    def __iadd__(self, o):
        if self.mutable and isinstance(o, (bytes, bytearray, SymBytes)):
            self.e.extend(list(o))          # bytearray semantics: extend in place (an alias sees the new bytes)
            return self
        r = self.__add__(o)
        if r is NotImplemented:
            return r
        return r

    def _eq(self, o):
        if isinstance(o, (bytes, bytearray)):
            oe = list(o)
        elif isinstance(o, SymBytes):
            oe = o.e
        else:
            return None
        if len(oe) != len(self.e):
            return z3.BoolVal(False)
        cs = []
        for a, b in zip(self.e, oe):
            if isinstance(a, int) and isinstance(b, int):
                if a != b:
                    return z3.BoolVal(False)
                continue
            cs.append(byte_term(a) == byte_term(b))
        return z3.And(*cs) if cs else z3.BoolVal(True)

    def __eq__(self, o):
        r = self._eq(o)
        return False if r is None else SymBool(r)

    def __ne__(self, o):
        r = self._eq(o)
        return True if r is None else SymBool(z3.Not(r))

    def __contains__(self, x):
        cs = []
        for e in self.e:
            r = (e == x)
            cs.append(tob(r))
        return ENG.decide(z3.Or(*cs)) if cs else False

    def __hash__(self):
        return hash(tuple(ENG.concretize(e.t) if isinstance(e, SymInt) else e for e in self.e))

    def __format__(self, spec):
        return repr(self)

    def __repr__(self):
        # marker determined by the CONTENT (term identities): equal contents format equally, a formatted string that embeds these bytes
        # can be recognised verbatim
        if all(isinstance(e, int) for e in self.e):
            return repr(bytes(self.e))
        key = tuple(e if isinstance(e, int) else -e.t.get_id() - 1 for e in self.e)
        return "<symbytes %d #%x>" % (len(self.e), hash(key) & 0xFFFFFFFFFF)

    __str__ = __repr__

    def hex(self):
        return "<symbytes-hex>"

    def concrete(self):
        return all(isinstance(e, int) for e in self.e)

    def strip(self):
        ws = (9, 10, 11, 12, 13, 32)
        e = list(self.e)

        def isws(c):
            if isinstance(c, int):
                return c in ws
            return ENG.decide(z3.Or(*[byte_term(c) == w for w in ws]))
        while e and isws(e[0]):
            e.pop(0)
        while e and isws(e[-1]):
            e.pop()
        return SymBytes(e)

    def startswith(self, p):
        return bool(self[: len(p)] == p)

    def endswith(self, p):
        if len(p) > len(self.e):
            return False
        return bool(self[len(self.e) - len(p):] == p)

    # bytearray-like mutation (a wrapper may keep its receive buffer as a mutable sequence)
    def __delitem__(self, i):
        if isinstance(i, slice):
            i = slice(_cidx(i.start), _cidx(i.stop), _cidx(i.step))
        else:
            i = _cidx(i)
        del self.e[i]

    def __setitem__(self, i, v):
        if isinstance(i, slice):
            i = slice(_cidx(i.start), _cidx(i.stop), _cidx(i.step))
            self.e[i] = list(v)
        else:
            self.e[_cidx(i)] = v

    def extend(self, o):
        self.e.extend(list(o))

    def append(self, v):
        self.e.append(v)

    def clear(self):
        del self.e[:]

    def find(self, sub, start=0, end=None):
        n = len(self.e)
        start = _cidx(start) or 0
        end = n if end is None else _cidx(end)
        if start < 0:
            start = max(0, n + start)
        if end < 0:
            end = max(0, n + end)
        end = min(end, n)
        if isinstance(sub, int):
            sub = bytes([sub])
        m = len(sub)
        for i in range(start, end - m + 1):
            if bool(self[i:i + m] == sub):
                return i
        return -1

    def _strip(self, chars, left, right):
        if chars is None:
            chars = b" \t\n\r\x0b\x0c"
        if isinstance(chars, SymBytes):
            if any(not isinstance(x, int) for x in chars.e):
                raise Unsupported("bytes.strip with symbolic character set")
            chars = bytes(chars.e)
        cs = set(bytes(chars))
        e = list(self.e)

        def inset(x):
            if isinstance(x, int):
                return x in cs
            t = byte_term(x)
            return bool(SymBool(z3.Or(*[t == v for v in sorted(cs)]))) if cs else False
        i, j = 0, len(e)
        if left:
            while i < j and inset(e[i]):
                i += 1
        if right:
            while j > i and inset(e[j - 1]):
                j -= 1
        return SymBytes(e[i:j])

    def lstrip(self, chars=None):
        return self._strip(chars, True, False)

    def rstrip(self, chars=None):
        return self._strip(chars, False, True)

    def strip(self, chars=None):
        return self._strip(chars, True, True)

    def index(self, sub, start=0, end=None):
        i = self.find(sub, start, end)
        if i < 0:
            raise ValueError("subsection not found")
        return i

    def __getattr__(self, name):
        if name.startswith("__"):
            raise AttributeError(name)
        raise Unsupported(f"bytes.{name} on symbolic bytes")

    def term(self):
        """the whole content as one bit-vector (8*len bits), MSB first"""
        parts = [byte_term(e) for e in self.e]
        if not parts:
            return None
        return z3.Concat(*parts) if len(parts) > 1 else parts[0]


def _cidx(i):
    if isinstance(i, SymInt):
        return ENG.concretize(i.t)
    return i


def symbytes(name, n):
    return SymBytes([SymInt(z3.ZeroExt(1, z3.BitVec(f"{name}{i}", 8))) for i in range(n)])


def symint(name, bits, signed=False):
    v = z3.BitVec(name, bits)
    return SymInt(v if signed else z3.ZeroExt(1, v))


# ----------------------------------------------------------------------------------------------
# strings
# ----------------------------------------------------------------------------------------------

class SymStr:
    """short str with concrete length: list of 1-char str / SymInt code points"""

    def __init__(self, cs):
        self.cs = list(cs)

    def _conc(self):
        return all(isinstance(c, str) for c in self.cs)

    def norm(self):
        return "".join(self.cs) if self._conc() else self

    def real(self):
        return "".join(c if isinstance(c, str) else chr(ENG.concretize(c.t)) for c in self.cs)

    def __len__(self):
        return len(self.cs)

    def __iter__(self):
        for c in self.cs:
            yield c if isinstance(c, str) else SymStr([c])

    def __getitem__(self, i):
        if isinstance(i, slice):
            return SymStr(self.cs[slice(_cidx(i.start), _cidx(i.stop), _cidx(i.step))]).norm()
        c = self.cs[_cidx(i)]
        return c if isinstance(c, str) else SymStr([c])

    def __add__(self, o):
        if isinstance(o, str):
            return SymStr(self.cs + list(o))
        if isinstance(o, SymStr):
            return SymStr(self.cs + o.cs)
        return NotImplemented

    def __radd__(self, o):
        if isinstance(o, str):
            return SymStr(list(o) + self.cs)
        return NotImplemented

    def _eqterm(self, o):
        if isinstance(o, str):
            oc = list(o)
        elif isinstance(o, SymStr):
            oc = o.cs
        else:
            return None
        if len(oc) != len(self.cs):
            return z3.BoolVal(False)
        cs = []
        for c, d in zip(self.cs, oc):
            if isinstance(c, str) and isinstance(d, str):
                if c != d:
                    return z3.BoolVal(False)
                continue
            ct = SymInt.lift(ord(c)) if isinstance(c, str) else c
            dt = SymInt.lift(ord(d)) if isinstance(d, str) else d
            cs.append((ct == dt).t)
        return z3.And(*cs) if cs else z3.BoolVal(True)

    def __eq__(self, o):
        r = self._eqterm(o)
        if r is None:
            return False
        return ENG.decide(r)

    def __ne__(self, o):
        return not self.__eq__(o)

    def __hash__(self):
        return hash(self.real())

    def __contains__(self, sub):
        if isinstance(sub, str) and len(sub) == 1:
            cs = []
            for c in self.cs:
                if isinstance(c, str):
                    if c == sub:
                        return True
                else:
                    cs.append((c == ord(sub)).t)
            return ENG.decide(z3.Or(*cs)) if cs else False
        return sub in self.real()

    def split(self, sep=None, maxsplit=-1):
        if sep is None or len(sep) != 1 or maxsplit != -1:
            return self.real().split(sep, maxsplit)
        parts = [[]]
        for c in self.cs:
            if isinstance(c, str):
                issep = (c == sep)
            else:
                issep = ENG.decide((c == ord(sep)).t)
            if issep:
                parts.append([])
            else:
                parts[-1].append(c)
        return [SymStr(p).norm() for p in parts]

    def startswith(self, p):
        return self[: len(p)] == p

    def isdigit(self):
        if not self.cs:
            return False
        cs = []
        for c in self.cs:
            if isinstance(c, str):
                if not c.isdigit():
                    return False
            else:
                cs.append(z3.And((c >= 48).t, (c <= 57).t))
        return ENG.decide(z3.And(*cs)) if cs else True

    def __lt__(self, o):
        return self.real() < (o.real() if isinstance(o, SymStr) else o)

    def __le__(self, o):
        return self.real() <= (o.real() if isinstance(o, SymStr) else o)

    def __gt__(self, o):
        return self.real() > (o.real() if isinstance(o, SymStr) else o)

    def __ge__(self, o):
        return self.real() >= (o.real() if isinstance(o, SymStr) else o)

    def __str__(self):
        return "<symstr %d>" % len(self.cs)

    def __repr__(self):
        return "SymStr(%r)" % (self.cs,)

    def __format__(self, spec):
        return "<symstr>"

    def __getattr__(self, name):
        if name.startswith("__"):
            raise AttributeError(name)
        raise Unsupported(f"str.{name} on symbolic str")

    def to_int(self, base=10):
        """int('…') of a digit string: the decimal polynomial (forks on 'all digits')"""
        if base != 10:
            return int(self.real(), base)
        if not self.cs:
            raise ValueError("invalid literal for int() with base 10: ''")
        acc = 0
        for c in self.cs:
            if isinstance(c, str):
                if not ('0' <= c <= '9'):
                    raise ValueError("invalid literal for int() with base 10")
                d = ord(c) - 48
            else:
                if not ENG.decide(z3.And((c >= 48).t, (c <= 57).t)):
                    raise ValueError("invalid literal for int() with base 10")
                d = c - 48
            acc = acc * 10 + d
        return acc


# ----------------------------------------------------------------------------------------------
# labels and guarded containers (predicated execution)
# ----------------------------------------------------------------------------------------------

LABELS = {}
RLABELS = {}
LW = 12


def code(s):
    if s not in LABELS:
        LABELS[s] = len(LABELS) + 1
        RLABELS[LABELS[s]] = s
    return LABELS[s]


class SymLabel:
    """a string drawn from a finite table; t is a BV(LW) code into the interning table"""
    __slots__ = ("t",)

    def __init__(self, t):
        self.t = t

    @staticmethod
    def lift(x):
        if isinstance(x, SymLabel):
            return x
        if isinstance(x, str):
            return SymLabel(z3.BitVecVal(code(x), LW))
        return None

    def candidates(self):
        """the label strings this term can denote (syntactic over-approximation)"""
        out = set()
        st = [self.t]
        seen = set()
        while st:
            x = st.pop()
            if x.get_id() in seen:
                continue
            seen.add(x.get_id())
            if z3.is_bv_value(x):
                out.add(RLABELS.get(x.as_long()))
            elif z3.is_app_of(x, z3.Z3_OP_ITE):
                st.append(x.arg(1))
                st.append(x.arg(2))
            else:
                return None
        return out

    def _map(self, f):
        """apply a str->(str|None) function through the ite structure"""
        memo = {}

        def go(x):
            k = x.get_id()
            if k in memo:
                return memo[k]
            if z3.is_bv_value(x):
                s = RLABELS[x.as_long()]
                r = z3.BitVecVal(code(f(s)), LW)
            elif z3.is_app_of(x, z3.Z3_OP_ITE):
                r = z3.If(x.arg(0), go(x.arg(1)), go(x.arg(2)))
            else:
                raise Unsupported("label term is not an ite tree")
            memo[k] = r
            return r
        return SymLabel(go(self.t))

    def __getitem__(self, i):
        return self._map(lambda s: s[i])

    def __eq__(self, o):
        o2 = SymLabel.lift(o)
        if o2 is None:
            return False
        return SymBool(self.t == o2.t)

    def __ne__(self, o):
        o2 = SymLabel.lift(o)
        if o2 is None:
            return True
        return SymBool(self.t != o2.t)

    def __hash__(self):
        return hash(self.real())

    def real(self):
        return RLABELS[ENG.concretize(z3.ZeroExt(1, self.t))]

    def __str__(self):
        return "<label>"

    def __format__(self, spec):
        return "<label>"

    def __repr__(self):
        return f"SymLabel({z3.simplify(self.t)})"


GUARDS = []


def reset_guards():
    del GUARDS[:]


def curguard():
    return z3.And(*GUARDS) if GUARDS else z3.BoolVal(True)


class guard:
    def __init__(self, c, neg=False):
        self.c = z3.Not(tob(c)) if neg else tob(c)

    def __enter__(self):
        GUARDS.append(self.c)

    def __exit__(self, *a):
        GUARDS.pop()


def ite(c, a, b):
    """merge two values under condition c (z3 Bool)"""
    if a is b:
        return a
    if isinstance(a, tuple) and isinstance(b, tuple) and len(a) == len(b):
        return tuple(ite(c, x, y) for x, y in zip(a, b))
    if isinstance(a, (str, SymLabel)) and isinstance(b, (str, SymLabel)):
        if isinstance(a, str) and isinstance(b, str) and a == b:
            return a
        return SymLabel(z3.If(c, SymLabel.lift(a).t, SymLabel.lift(b).t))
    if isinstance(a, (SymBool, bool)) and isinstance(b, (SymBool, bool)):
        return SymBool(z3.If(c, tob(a), tob(b)))
    if isinstance(a, (int, SymInt)) and isinstance(b, (int, SymInt)):
        a2, b2 = SymInt.lift(a), SymInt.lift(b)
        W = max(a2.w, b2.w)
        return SymInt(z3.If(c, sx(a2.t, W), sx(b2.t, W)))
    if isinstance(a, SymScaled) and isinstance(b, SymScaled) and a.f == b.f:
        return SymScaled(ite(c, a.i, b.i), a.f)
    if isinstance(a, SymStr) and isinstance(b, SymStr) and len(a) == len(b):
        out = []
        for x, y in zip(a.cs, b.cs):
            if isinstance(x, str) and isinstance(y, str) and x == y:
                out.append(x)
            else:
                out.append(ite(c, ord(x) if isinstance(x, str) else x, ord(y) if isinstance(y, str) else y))
        return SymStr(out)
    try:
        if type(a) is type(b) and not isinstance(a, (SymInt, SymBool)) and a == b:
            return a
    except Exception:
        pass
    raise CannotMerge(f"{type(a).__name__} vs {type(b).__name__}")


class SymDict:
    """dict written under symbolic guards: list of (guard, key, value) writes"""

    def __init__(self):
        self.w = []

    @staticmethod
    def _nkey(k):
        """a key proxy whose term is a constant becomes the ordinary integer"""
        if isinstance(k, SymInt):
            ks = z3.simplify(k.t)
            if z3.is_bv_value(ks):
                return ks.as_signed_long()
        return k

    def __setitem__(self, k, v):
        self.w.append((z3.simplify(curguard()), self._nkey(k), v))

    @staticmethod
    def _keq(k1, k2):
        r = (k1 == k2)
        return tob(r)

    def lookup(self, k):
        """(value term or None, presence condition)"""
        res = None
        pres = z3.BoolVal(False)
        plain = (int, str, bytes, tuple, float, bool, type(None))
        k = self._nkey(k)
        kplain = type(k) in plain and not (type(k) is tuple and any(type(x) not in plain for x in k))
        for g, kk, v in self.w:
            if kplain and type(kk) in plain and not (type(kk) is tuple and any(type(x) not in plain for x in kk)):
                # both keys are ordinary values: no solver term needed (the guard was simplified when the write was recorded)
                if kk != k or z3.is_false(g):
                    continue
                c = g
            else:
                c = z3.simplify(z3.And(g, self._keq(kk, k)))
            if z3.is_false(c):
                continue
            if z3.is_true(c):          # an unconditional write of this key replaces whatever was stored before
                res, pres = v, z3.BoolVal(True)
                continue
            res = v if res is None else ite(c, v, res)
            pres = z3.Or(pres, c)
        return res, pres

    def __getitem__(self, k):
        res, pres = self.lookup(k)
        if res is None or not ENG.decide(pres):
            raise KeyError(k)
        return res

    def get(self, k, default=None):
        res, pres = self.lookup(k)
        if res is None:
            return default
        p = z3.simplify(pres)
        if z3.is_true(p):
            return res
        return ite(p, res, default)

    def __contains__(self, k):
        res, pres = self.lookup(k)
        return False if res is None else ENG.decide(pres)

    def _plain(self):
        """the ordinary dict this container denotes when every write was unconditional with a concrete key"""
        out = {}
        for g, k, v in self.w:
            gs = z3.simplify(g)
            if z3.is_false(gs):
                continue
            if isinstance(k, SymInt):
                ks = z3.simplify(k.t)
                if z3.is_bv_value(ks):
                    k = ks.as_signed_long()
            if not z3.is_true(gs) or isinstance(k, (SymInt, SymBool, SymStr, SymLabel)):
                raise Unsupported("dict written under symbolic guards used as a whole (len / iteration / items)")
            out[k] = v
        return out

    def __len__(self):
        return len(self._plain())

    def __iter__(self):
        return iter(self._plain())

    def items(self):
        return self._plain().items()

    def keys(self):
        return self._plain().keys()

    def values(self):
        return self._plain().values()

    def __getattr__(self, name):
        if name.startswith("__"):
            raise AttributeError(name)
        raise Unsupported(f"dict.{name} on a dict written under symbolic guards")


class SymList:
    def __init__(self):
        self.d = SymDict()
        self.n = 0

    def append(self, v):
        self.d[self.n] = v
        g = z3.simplify(curguard())
        if z3.is_true(g):
            self.n = self.n + 1
        else:
            self.n = ite(g, self.n + 1, self.n)

    def __getitem__(self, i):
        try:
            return self.d[i]
        except KeyError:
            raise IndexError("list index out of range") from None

    def __len__(self):
        if isinstance(self.n, int):
            return self.n
        return ENG.concretize(self.n.t)

    def __iter__(self):
        n = len(self)
        for i in range(n):
            yield self[i]

    def __getattr__(self, name):
        if name.startswith("__"):
            raise AttributeError(name)
        raise Unsupported(f"list.{name} on a list written under symbolic guards")


class ConstMap:
    """a real (concrete) dict read with a symbolic key: .get(k, default) becomes an ite chain"""

    def __init__(self, d):
        self.d = d

    def get(self, k, default=None):
        if not isinstance(k, SymInt):
            return self.d.get(k, default)
        res = default
        for kk, v in self.d.items():
            c = tob(k == kk)
            res = ite(c, v, res)
        return res

    def __getitem__(self, k):
        if not isinstance(k, SymInt):
            return self.d[k]
        pres = z3.Or(*[tob(k == kk) for kk in self.d]) if self.d else z3.BoolVal(False)
        if not ENG.decide(pres):
            raise KeyError(k)
        res = None
        for kk, v in self.d.items():
            res = v if res is None else ite(tob(k == kk), v, res)
        return res

    def __contains__(self, k):
        if not isinstance(k, SymInt):
            return k in self.d
        return ENG.decide(z3.Or(*[tob(k == kk) for kk in self.d]))

    def __iter__(self):
        return iter(self.d)

    def items(self):
        return self.d.items()

    def __len__(self):
        return len(self.d)


class IntTable:
    """a constant list/tuple of ints read with a symbolic index: the lookup becomes an ite chain (e.g. a 256-entry CRC table)"""

    def __init__(self, vals):
        self.vals = list(vals)

    def __len__(self):
        return len(self.vals)

    def __iter__(self):
        return iter(self.vals)

    def __getitem__(self, i):
        if not isinstance(i, SymInt):
            return self.vals[i]
        n = len(self.vals)
        W = max(fit(v) for v in self.vals) if self.vals else 2
        it = sx(i.t, max(i.w, fit(n)))
        inrange = False
        if z3.is_app_of(i.t, z3.Z3_OP_BAND):       # x & const with 0 <= const < n is in range by construction
            for a in i.t.children():
                if z3.is_bv_value(a) and 0 <= a.as_signed_long() < n:
                    inrange = True
        if not inrange and not ENG.decide(z3.And(it >= 0, it < n)):
            raise IndexError("tuple index out of range")
        res = bv(self.vals[0], W)
        for k in range(1, n):
            res = z3.If(it == k, bv(self.vals[k], W), res)
        return SymInt(res)


class Poison:
    """an unmergeable dead temporary: fails only if it is used"""

    def __init__(self, n, why):
        self.__dict__['_n'] = n
        self.__dict__['_why'] = why

    def _boom(self, *a, **k):
        raise CannotMerge(f"use of unmergeable local {self._n}: {self._why}")

    __getitem__ = __getattr__ = __call__ = __add__ = __radd__ = __bool__ = __eq__ = __index__ = _boom
    __iter__ = __len__ = __mul__ = __sub__ = _boom


UNB = object()


def issym(c):
    return isinstance(c, (SymInt, SymBool))


def snap(loc, names):
    return {n: loc.get(n, UNB) for n in names}


def merge(c, then, els, names, poison=False):
    cb = tob(c)
    out = {}
    for n in names:
        a, b = then[n], els[n]
        if a is UNB or b is UNB:
            if a is b:
                continue
            if poison:
                out[n] = Poison(n, "bound on one branch only")
                continue
            raise CannotMerge("unbound on one branch")
        try:
            out[n] = ite(cb, a, b)
        except CannotMerge as e:
            if not poison:
                raise
            out[n] = Poison(n, str(e))
    return out


def join(sep, parts):
    """<literal>.join(parts) with proxy-aware parts"""
    parts = list(parts)
    if all(isinstance(x, type(sep)) for x in parts):
        return sep.join(parts)
    if isinstance(sep, bytes):
        out = SymBytes([])
        for i, x in enumerate(parts):
            if i:
                out = out + sep
            out = out + x
        return out
    out = SymStr([])
    for i, x in enumerate(parts):
        if i:
            out = out + sep
        out = out + x
    return out.norm()


def vars_of(t):
    """names of the uninterpreted constants occurring in a z3 term"""
    seen = set()
    out = set()
    st = [t]
    while st:
        x = st.pop()
        i = x.get_id()
        if i in seen:
            continue
        seen.add(i)
        if z3.is_const(x) and x.decl().kind() == z3.Z3_OP_UNINTERPRETED:
            out.add(str(x))
        st.extend(x.children())
    return out


def term_of(v):
    """the z3 term(s) carried by a value (for support checks)"""
    if isinstance(v, (SymInt, SymBool, SymLabel)):
        return [v.t]
    if isinstance(v, SymScaled):
        return [v.i.t]
    if isinstance(v, SymStr):
        return [c.t for c in v.cs if not isinstance(c, str)]
    if isinstance(v, SymBytes):
        return [e.t for e in v.e if not isinstance(e, int)]
    if isinstance(v, (tuple, list)):
        out = []
        for x in v:
            out += term_of(x)
        return out
    return []
