"""Shared symbolic driver for the message constructor (directed and free mode) and the field /
MSM obligations built from the independent oracles."""
import json
import os

import z3

from . import sym, shims, oracle_layout as ol, concrete
from .sym import SymInt, SymBool, SymStr, SymScaled, SymLabel, SymBytes, sx, bv, fit

_TB = None


def tb():
    global _TB
    if _TB is None:
        _TB = ol.tables()
    return _TB


def fterm(P, nb, off, w):
    """unsigned w-bit term of payload bits [off, off+w)"""
    return z3.Extract(nb - 1 - off, nb - off - w, P)


def onehot_mask(width, poss):
    """mask with the (1-based, MSB first) positions set"""
    m = z3.BitVecVal(0, width)
    top = z3.BitVecVal(1 << (width - 1), width)
    for a in poss:
        m = m | z3.LShR(top, z3.ZeroExt(width - a.size(), a) - 1)
    return m


def popcount_term(t):
    return sym.popcount(SymInt(z3.ZeroExt(1, t))).t if t.size() > 0 else z3.BitVecVal(0, 2)


class Overrun(Exception):
    pass


class Directed:
    """a structure: identity + chooser of structural values; builds the assumptions for one symbolic payload"""

    def __init__(self, ident, choose, spare=2, length=None, pname="p", nonzero_text=True):
        self.ident = ident
        self.choose = choose
        self.pname = pname
        self.nonzero_text = nonzero_text
        self.assume_list = []
        tables = tb()

        def valueof(name, off, w, what):
            v = choose(name, w, what)
            if what == 'popcount' and isinstance(v, tuple):   # ('value', mask)
                self.assume_list.append(('eq', name, off, w, v[1]))
                return bin(v[1]).count("1")
            if what == 'popcount':
                self.assume_list.append(('pop', name, off, w, v))
                return v
            self.assume_list.append(('eq', name, off, w, v))
            return v
        self.layout = ol.walk(ident, valueof, tables)
        self.total = self.layout.total
        self.need = (self.total + 7) // 8
        self.L = self.need + spare if length is None else length

    def build(self, eng):
        """create the symbolic payload and assert the structure assumptions; returns SymBytes"""
        L = self.L
        self.nb = nb = 8 * L
        num = int(self.ident[:4])
        # bits fixed by the structure (identity, counters, flags, concrete masks) are written into the payload as constants, so that
        # terms over them fold syntactically; every other bit is a solver variable
        known = {}

        def fix(off, w, v):
            for i in range(w):
                known[off + i] = (v >> (w - 1 - i)) & 1
        if nb >= 12:
            fix(0, 12, num)
        if "_" in self.ident and nb >= 23:
            fix(15, 8, int(self.ident[5:]))
        for a in self.assume_list:
            kind, name, off, w, v = a
            if kind == 'eq' and off + w <= nb and w > 0:
                fix(off, w, v)
        elems = []
        for bi in range(L):
            var = z3.BitVec(f"{self.pname}{bi}", 8)
            bits = [known.get(8 * bi + j) for j in range(8)]
            if all(b is not None for b in bits):
                elems.append(int("".join(str(b) for b in bits), 2))
            elif all(b is None for b in bits):
                elems.append(sym.SymInt(z3.ZeroExt(1, var)))
            else:
                parts = []
                j = 0
                while j < 8:
                    k = j
                    if bits[j] is None:
                        while k < 8 and bits[k] is None:
                            k += 1
                        parts.append(z3.Extract(7 - j, 8 - k, var))
                    else:
                        while k < 8 and bits[k] is not None:
                            k += 1
                        parts.append(z3.BitVecVal(int("".join(str(b) for b in bits[j:k]), 2), k - j))
                    j = k
                t = z3.Concat(*parts) if len(parts) > 1 else parts[0]
                elems.append(sym.SymInt(z3.ZeroExt(1, t)))
        p = sym.SymBytes(elems)
        self.p = p
        self.P = P = p.term()
        self.wit = {}
        for a in self.assume_list:
            kind, name, off, w, v = a
            if off + w > nb or w == 0:
                continue   # field lies (partly) outside a truncated payload
            if kind == 'eq':
                pass
            else:
                A = [z3.BitVec(f"{self.pname}_{name}_pos{i}", 8) for i in range(v)]
                for i, a_ in enumerate(A):
                    eng.assume(z3.And(z3.UGE(a_, 1), z3.ULE(a_, w)))
                    if i:
                        eng.assume(z3.ULT(A[i - 1], a_))
                eng.assume(fterm(P, nb, off, w) == onehot_mask(w, A))
                self.wit[name] = A
        if self.nonzero_text:
            for f in self.layout.fields:
                if f.typ == "STR" and f.off + f.w <= nb:
                    eng.assume(fterm(P, nb, f.off, f.w) != 0)
        return p

    def payload_from_model(self, model):
        return bytes(model.eval(sym.byte_term(e), model_completion=True).as_long() for e in self.p.e)


def layouts_for_path(eng, ident, P, nb, maxn=6):
    """layouts consistent with the current path condition.  Yields (layout | 'overrun' | BadDefinition, extra)
    while the engine's solver holds pc ∧ extra (pushed); structural values not forced by the path condition are
    enumerated by model + blocking clause (at most maxn, then a truncation note is yielded as ('more', None))."""
    blocked = []
    n = 0
    while True:
        eng.solver.push()
        try:
            for b in blocked:
                eng.solver.add(b)
            if eng.check3() != 'sat':
                return
            conds = []

            def valueof(name, off, w, what):
                if off + w > nb:
                    raise Overrun()
                t = fterm(P, nb, off, w) if w > 0 else z3.BitVecVal(0, 1)
                if what == 'popcount':
                    t = popcount_term(t)
                if eng.check3() != 'sat':
                    raise sym.SolverUnknown("structure enumeration")
                v = eng.model().eval(t, model_completion=True)
                if eng.check3(t != v) != 'unsat':
                    eng.solver.add(t == v)
                    conds.append(t == v)
                return v.as_long()
            try:
                lay = ol.walk(ident, valueof, tb())
                if lay.total > nb:
                    lay = 'overrun'
            except Overrun:
                lay = 'overrun'
            except ol.BadDefinition as e:
                lay = e
            yield lay, (z3.And(*conds) if conds else None)
        finally:
            eng.solver.pop()
        if not conds:
            return
        blocked.append(z3.Not(z3.And(*conds)))
        n += 1
        if n >= maxn:
            yield 'more', None
            return


# ----------------------------------------------------------------------------------------------
# field semantics (oracle side)
# ----------------------------------------------------------------------------------------------

def ref_term(raw, w, typ, res):
    """expected integer term (signed BV) of a field before float scaling; returns (term, float_res|None)"""
    if typ == "INT":
        t = z3.SignExt(1, raw)
    elif typ == "SNT":
        if w == 1:
            t = z3.BitVecVal(0, 2)
        else:
            mag = z3.ZeroExt(2, z3.Extract(w - 2, 0, raw))
            t = z3.If(z3.Extract(w - 1, w - 1, raw) == 1, -mag, mag)
    else:
        t = z3.ZeroExt(1, raw)
    fres = None
    if res not in (0, 1):
        if isinstance(res, int) and not isinstance(res, bool):
            fres = ('int', res)
        else:
            fres = res
    return t, fres


def split_const_mul(t):
    """if t is syntactically X * numeral (either order, extensions folded) return (X, numeral value) else None"""
    if not z3.is_app_of(t, z3.Z3_OP_BMUL) or t.num_args() != 2:
        return None
    a, b = z3.simplify(t.arg(0)), z3.simplify(t.arg(1))
    if z3.is_bv_value(b):
        return t.arg(0), b.as_signed_long()
    if z3.is_bv_value(a):
        return t.arg(1), a.as_signed_long()
    return None


def eq_int(g, et):
    """z3 Bool: value g (int / SymInt) equals expected signed term et; None if g has the wrong type"""
    if isinstance(g, bool) or isinstance(g, SymBool):
        return None
    if isinstance(g, int):
        gt = z3.BitVecVal(g, max(fit(g), 2))
    elif isinstance(g, SymInt):
        gt = g.t
    else:
        return None
    W = max(gt.size(), et.size())
    return sx(gt, W) == sx(et, W)


def public_attrs(m):
    return {k: v for k, v in m.__dict__.items() if not k.startswith("_")}


def field_claims(m, lay, P, nb, skip_derived=True):
    """list of (field name, claim) where claim is a z3 Bool to be proven valid under pc, or a str describing
    a structural mismatch that needs no solver"""
    got = public_attrs(m)
    claims = []
    strs = {}
    for f in lay.fields:
        if f.typ in ol.DERIVED:
            if f.name not in got:
                claims.append((f.name, f"missing derived attribute {f.name}"))
            continue
        raw = fterm(P, nb, f.off, f.w) if f.w > 0 else None
        if f.typ == "STR":
            strs.setdefault(f.key, []).append(raw)
            continue
        if f.name not in got:
            claims.append((f.name, f"missing attribute {f.name}"))
            continue
        g = got[f.name]
        if f.w == 0:
            claims.append((f.name, (g == 0) if isinstance(g, int) else tob_eq0(g)))
            continue
        if f.typ == "CHA":
            if isinstance(g, str) and len(g) == 1:
                claims.append((f.name, raw == ord(g)))
            elif isinstance(g, SymStr) and len(g) == 1:
                c = g.cs[0]
                ct = z3.BitVecVal(ord(c), 10) if isinstance(c, str) else c.t
                W = max(ct.size(), f.w + 1)
                claims.append((f.name, sx(ct, W) == z3.ZeroExt(W - f.w, raw)))
            else:
                claims.append((f.name, f"{f.name}: character field holds {type(g).__name__}"))
            continue
        et, fres = ref_term(raw, f.w, f.typ, f.res)
        if isinstance(fres, tuple):   # integer resolution: exact product in the bit-vector domain
            ires = fres[1]
            c = None
            if isinstance(g, SymInt):
                sp = split_const_mul(g.t)
                if sp is not None:
                    if sp[1] != ires:
                        claims.append((f.name, f"{f.name}: multiplied by {sp[1]}, table resolution {ires}"))
                        continue
                    c = eq_int(SymInt(sp[0]), et)
            if c is None:
                W = et.size() + fit(ires)
                c = eq_int(g, sx(et, W) * z3.BitVecVal(ires, W))
            if c is None:
                claims.append((f.name, f"{f.name}: value of type {type(g).__name__}"))
            else:
                claims.append((f.name, c))
            continue
        if fres is not None:
            if isinstance(g, SymScaled):
                if g.f != fres:
                    claims.append((f.name, f"{f.name}: scaled by {g.f!r}, table resolution {fres!r}"))
                    continue
                c = eq_int(g.i, et)
            elif isinstance(g, float):
                claims.append((f.name, ('float', g, et, fres)))
                continue
            else:
                claims.append((f.name, f"{f.name}: resolution {fres!r} not applied ({type(g).__name__})"))
                continue
        else:
            if isinstance(g, SymScaled):
                claims.append((f.name, f"{f.name}: unexpectedly scaled by {g.f!r}"))
                continue
            c = eq_int(g, et)
        if c is None:
            claims.append((f.name, f"{f.name}: value of type {type(g).__name__}"))
        else:
            claims.append((f.name, c))
    for key, raws in strs.items():
        if key not in got:
            claims.append((key, f"missing text attribute {key}"))
            continue
        g = got[key]
        cs = list(g) if isinstance(g, str) else (g.cs if isinstance(g, SymStr) else None)
        if cs is None or len(cs) != len(raws):
            claims.append((key, f"{key}: text of {None if cs is None else len(cs)} units, expected {len(raws)}"))
            continue
        parts = []
        for c, raw in zip(cs, raws):
            ct = z3.BitVecVal(ord(c), 10) if isinstance(c, str) else c.t
            W = max(ct.size(), raw.size() + 1)
            parts.append(sx(ct, W) == z3.ZeroExt(W - raw.size(), raw))
        claims.append((key, z3.And(*parts) if parts else z3.BoolVal(True)))
    return claims


def tob_eq0(g):
    if isinstance(g, SymInt):
        return g.t == 0
    return f"zero-width field holds {type(g).__name__}"


def names_claim(m, lay, ident):
    """expected public attribute names versus actual; returns list of mismatch strings"""
    got = list(public_attrs(m))
    exp = lay.names()
    t = tb()
    if ident in t['msm']:
        exp = exp + [t['NSAT'], t['NSIG'], t['NCELL']]
    bad = []
    for n in exp:
        if n not in got:
            bad.append(f"missing attribute {n}")
    for n in got:
        if n not in exp:
            bad.append(f"unexpected attribute {n}")
    return bad


# ----------------------------------------------------------------------------------------------
# MSM oracle (C09): witness positions -> expected labels
# ----------------------------------------------------------------------------------------------

def lut(a, table, default):
    """label code of table[a] (a: BV position variable) as an ite chain"""
    t = z3.BitVecVal(sym.code(default), sym.LW)
    for k, v in table.items():
        t = z3.If(a == k, z3.BitVecVal(sym.code(v), sym.LW), t)
    return t


def norm_label_term(lbl):
    """map a label value (str | SymLabel) through concrete.norm_label and return its code term"""
    def f(s):
        n = concrete.norm_label(s)
        return "#%d" % n if isinstance(n, int) else n
    if isinstance(lbl, str):
        return z3.BitVecVal(sym.code(f(lbl)), sym.LW)
    if isinstance(lbl, SymLabel):
        return lbl._map(f).t
    return None


def prn_tables(cons):
    """(pinned table id -> normalised label string, set of unpinned ids)"""
    pin = {}
    unp = set()
    for i in range(1, 65):
        e, pinned = concrete.prn_expect(cons, i)
        if pinned:
            pin[i] = "#%d" % e if isinstance(e, int) else e
        else:
            unp.add(i)
    return pin, unp


def sig_tables(cons, option, repo_sigmap):
    pin = {}
    unp = {}
    for i in range(1, 33):
        e, pinned = concrete.sig_expect(cons, i, option, repo_sigmap)
        if pinned:
            pin[i] = e if e is not None else "<missing table entry>"
        else:
            unp[i] = e
    return pin, unp


def msm_claims(m, ident, A, B, P, nb, lay, option):
    """claims for NSat/NSig/NCell and the PRN / CELLPRN / CELLSIG labels given witness positions A (satellite
    mask) and B (signal mask).  Returns list of (name, z3 Bool | str)."""
    from pyrtcm.rtcmtables import PRNSIGMAP
    t = tb()
    cons = ident[:3]
    got = public_attrs(m)
    claims = []
    ks, kg = len(A), len(B)
    for nm, exp in ((t['NSAT'], ks), (t['NSIG'], kg)):
        g = got.get(nm)
        c = eq_int(g, z3.BitVecVal(exp, 8)) if g is not None else None
        claims.append((nm, c if c is not None else f"{nm} missing or of wrong type"))
    byn = lay.by_name()
    cellf = byn.get("DF396")
    wc = ks * kg
    cmt = fterm(P, nb, cellf.off, wc) if wc > 0 else None
    g = got.get(t['NCELL'])
    expn = popcount_term(cmt) if cmt is not None else z3.BitVecVal(0, 2)
    c = eq_int(g, expn) if g is not None else None
    claims.append((t['NCELL'], c if c is not None else "NCell missing or of wrong type"))
    ppin, punp = prn_tables(cons)
    repo_sig = concrete.repo_maps(cons)[1]
    spin, sunp = sig_tables(cons, option, repo_sig)

    def prn_ok(lbl, a):
        """label of satellite position a is right"""
        lt = norm_label_term(lbl)
        if lt is None:
            return f"satellite label of type {type(lbl).__name__}"
        exp = lut(a, ppin, "N/A")
        ok = lt == exp
        if punp:
            un = z3.Or(*[a == i for i in punp])
            # unpinned range: the number itself or N/A
            num = z3.BitVecVal(0, sym.LW)
            for i in punp:
                num = z3.If(a == i, z3.BitVecVal(sym.code("#%d" % i), sym.LW), num)
            ok = z3.If(un, z3.Or(lt == num, lt == sym.code("N/A")), ok)
        return ok

    def sig_ok(lbl, b):
        if isinstance(lbl, str):
            lt = z3.BitVecVal(sym.code(lbl), sym.LW)
        elif isinstance(lbl, SymLabel):
            lt = lbl.t
        else:
            return f"signal label of type {type(lbl).__name__}"
        exp = lut(b, spin, "N/A")
        ok = lt == exp
        if sunp:
            un = z3.Or(*[b == i for i in sunp])
            alt = z3.BitVecVal(sym.code("N/A"), sym.LW)
            for i, e in sunp.items():
                if e is not None:
                    alt = z3.If(b == i, z3.BitVecVal(sym.code(e), sym.LW), alt)
            ok = z3.If(un, z3.Or(lt == alt, lt == sym.code("N/A")), ok)
        return ok

    for i in range(1, ks + 1):
        nm = "PRN_%02d" % i
        if nm not in got:
            claims.append((nm, f"missing {nm}"))
            continue
        claims.append((nm, prn_ok(got[nm], A[i - 1])))
    ncell = len([a for a in got if a.startswith("CELLPRN_")])
    # k-th set bit of the cell mask, satellite-major
    for k in range(1, ncell + 1):
        np_, ns_ = "CELLPRN_%02d" % k, "CELLSIG_%02d" % k
        if np_ not in got or ns_ not in got:
            claims.append((np_, f"missing {np_}/{ns_}"))
            continue
        conds_p, conds_s = [], []
        anypos = []
        for pos in range(1, wc + 1):
            bit = z3.Extract(wc - pos, wc - pos, cmt) == 1
            if pos > 1:
                before = popcount_term(z3.Extract(wc - 1, wc - pos + 1, cmt))
                isk = z3.And(bit, before == z3.BitVecVal(k - 1, before.size()))
            else:
                isk = bit if k == 1 else z3.BoolVal(False)
            si, gi = divmod(pos - 1, kg)
            pc_ = prn_ok(got[np_], A[si])
            sc_ = sig_ok(got[ns_], B[gi])
            if isinstance(pc_, str) or isinstance(sc_, str):
                claims.append((np_, pc_ if isinstance(pc_, str) else sc_))
                conds_p = None
                break
            conds_p.append(z3.Implies(isk, pc_))
            conds_s.append(z3.Implies(isk, sc_))
            anypos.append(isk)
        if conds_p is None:
            continue
        claims.append((np_, z3.And(z3.Or(*anypos) if anypos else z3.BoolVal(False), *conds_p)))
        claims.append((ns_, z3.And(*conds_s) if conds_s else z3.BoolVal(True)))
    return claims


# ----------------------------------------------------------------------------------------------
# checking a list of claims under the current path condition
# ----------------------------------------------------------------------------------------------

def discharge(eng, claims, res, on_cex, label=""):
    """prove every claim under the engine's current solver state.  on_cex(name, model|None, text) is called
    for each refuted claim."""
    sem = [(n, c) for n, c in claims if not isinstance(c, (str, tuple))]
    for n, c in claims:
        res['obligations'] += 1
        if isinstance(c, str):
            res['refuted'] += 1
            on_cex(n, None, c)
        elif isinstance(c, tuple) and c[0] == 'float':
            # concrete float value: the raw term must be forced and the product must match
            _, g, et, fres = c
            u = eng.unique(et)
            if u is not None and g == u * fres:
                res['discharged'] += 1
            else:
                res['refuted'] += 1
                on_cex(n, None, f"{n}: concrete float {g!r} does not match the field bits")
    if not sem:
        return
    allc = z3.And(*[c for _, c in sem])
    # one batched query first (cheap when everything holds); it gets a short time limit and a give-up is not counted: the claims are then
    # decided one by one with the full limit
    eng.solver.set("timeout", min(20000, eng.query_timeout_ms))
    try:
        r = str(eng.solver.check(z3.Not(allc)))
    finally:
        eng.solver.set("timeout", eng.query_timeout_ms)
    eng.nchecks += 1
    if r == 'unsat':
        res['discharged'] += len(sem)
        return
    for n, c in sem:
        r = eng.check3(z3.Not(c))
        if r == 'unsat':
            res['discharged'] += 1
        elif r == 'sat':
            res['refuted'] += 1
            on_cex(n, eng.model(), f"{label}{n}")
        else:
            res['inconclusive'].append(f"{label}{n}: solver unknown")


def install():
    return shims.install()
