"""C02 — no valid frame is lost, duplicated or reordered on well-formed mixed input (file, buffered and socket streams)."""
import itertools
import random

import z3

from . import sym, shims, msgdrv, rdrdrv, streams
from .core import JobResult
from .sym import SymBytes

META = {
    "level": "model_checking",
    "functions": ["pyrtcm.rtcmreader.RTCMReader.read/__next__/_parse_rtcm3/_parse_ubx/_parse_nmea/_read_bytes/_read_line/parse",
                  "pyrtcm.socketwrapper.SocketWrapper.__init__/_recv/read/readline", "pyrtcm.rtcmmessage.RTCMMessage.*", "calc_crc24q (fold summary)"],
    "transforms": ["if-conversion (_set_attribute_single, calc_crc24q)"],
    "shims": ["SymStream", "SymSocket (solver-chosen recv lengths, bounded cuts)", "bytes/BytesIO (socketwrapper)", "NMEA_HDR one decision",
              "CRC policy: recorded result over a generated frame assumed 0 (valid w.r.t. the code's own CRC; tied to CRC-24Q by C08)"],
    "bounds": {
        "quick": "all sequences of <=3 items from {zero-length frame, frames with 2/3/19-byte payloads, NMEA sentence (3 symbolic body bytes), UBX (0/2/257 payload bytes), "
                 "1-2 inert noise bytes}; payload, CRC, NMEA body, UBX id/payload/checksum symbolic; error modes 0/1/2; socket: all 2-item sequences with every "
                 "placement of <=1 receive cut, seeded 3-item sequences with <=2 cuts, bufsize in {3, 4096}; one 1023-byte frame between neighbours",
        "thorough": "all sequences of <=4 items; socket: all 2-item sequences with <=2 cuts, 120 seeded 3-item sequences with <=2 cuts"},
    "outside": "sequences longer than the bound; real io.BufferedReader objects (represented by the read(n)-returns-n-unless-EOF contract of the double); "
               "2-byte payload announcing 4076 (no room for the sub-type)",
    "assumptions": ["frames with payloads shorter than 2 bytes carry no message number: the oracle neither requires nor forbids returning them",
                    "message number of each frame fixed by assumption (4072 unknown, 1070 reserved, 1005); remaining payload bits free"],
}
WALL_BUDGET = {"quick": 900, "thorough": 3000}
QK = ('R0', 'R2', 'R3', 'R19', 'N', 'U0', 'U2', 'UL', 'X1', 'X2')
QS = ('R0', 'R2', 'R3', 'R19', 'N', 'U0', 'U2', 'X1', 'X2')   # socket jobs: every cut placement, so no 263-byte item


def jobs(tier, seed):
    out = []
    maxn = 3 if tier == 'quick' else 4
    seqs = []
    for n in range(1, maxn + 1):
        seqs += list(itertools.product(QK, repeat=n))
    # chunks of sequences per job
    per = 10 if tier == 'quick' else 40
    for i in range(0, len(seqs), per):
        out.append(('file', i, per, maxn))
    two = list(itertools.product(QS, repeat=2))
    for i in range(0, len(two), 3):
        out.append(('sock', 2, i, 3, 1, 4096))
    for i in range(0, 20, 5):       # bufsize 3: many receives per sequence, the slowest runs of this check - small jobs
        out.append(('sock', 2, i, 5, 1, 3))
    rnd = random.Random(seed + 17)
    three = list(itertools.product(QS, repeat=3))
    pick = rnd.sample(range(len(three)), 32 if tier == 'quick' else 120)
    for i in range(0, len(pick), 4):
        out.append(('sockpick', 3, pick[i:i + 4], 1 if tier == 'quick' else 2, 4096))
    pick2 = rnd.sample(range(len(two)), 12 if tier == 'quick' else len(two))   # 2 cuts: about 150 paths per sequence
    for i in range(0, len(pick2), 2):
        out.append(('sockpick', 2, pick2[i:i + 2], 2, 4096))
    out.append(('max', ('R2', 'Rmax', 'R3')))
    out.append(('max', ('Rmax', 'R2')))
    out.append(('max', ('N', 'Rmax', 'U2', 'R2')))
    out.append(('max', ('R2', 'UL', 'R3')))
    out.append(('max', ('R2', 'UX', 'R3', 'R2')))
    return out


def check_run(eng, run, data, items, res, mkcase):
    """returned raws (payload >= 2) == generated frames (payload >= 2), in order, term-wise; clean stop"""
    exp = [it for it in items if it.frame and it.payload_len >= 2]
    got = [raw for raw, _ in run.pairs() if len(raw) - 6 >= 2]
    res['obligations'] += 1
    if run.end != 'stop':
        res['refuted'] += 1
        mkcase(f"iteration ended with {run.end!r}")
        return False
    if len(got) != len(exp) or not all(sym.same_bytes(list(g), it.elems) for g, it in zip(got, exp)):
        res['refuted'] += 1
        mkcase(f"returned {len(got)} frames, generated {len(exp)} (or content/order differs)")
        return False
    # every frame that went through the CRC policy exactly once
    res['discharged'] += 1
    return True


def run_seq(seq, mode, res, via='file', maxcuts=0, bufsize=4096, faults=0):
    eng = sym.Engine(max_paths=60 if via == 'file' else 3000, conc_limit=64, conc_small=0)
    eng.time_budget = 15 if via == 'file' else 120
    eng.query_timeout_ms = 8000 if via == 'file' else 60000
    H = {}

    def fn():
        data, items = streams.build(eng, seq)
        H['data'], H['items'] = data, items
        pol = streams.CrcPolicy(eng, items)
        if via == 'file':
            st = shims.SymStream(data)
            kw = {}
        else:
            st = shims.SymSocket(data, maxcuts=maxcuts)
            kw = {'bufsize': bufsize}
        H['st'] = st
        try:
            return rdrdrv.iterate(st, mode=mode, max_calls=3 * len(data) + 8, crc_hook=pol, **kw)
        finally:
            if via != 'file':
                st.close()
    okp = 0
    for path in eng.explore(fn):
        if path.kind == 'abort':
            continue
        if path.kind != 'ret':
            if path.kind == 'exc':
                res['obligations'] += 1
                res['refuted'] += 1
                emit(eng, H, None, seq, mode, via, bufsize, res, f"exception {type(path.value).__name__}: {path.value}")
            else:
                res['inconclusive'].append(f"{seq} {via}: {path.kind} {str(path.value)[:80]}")
            continue
        run = path.value

        def mkcase(why):
            emit(eng, H, run, seq, mode, via, bufsize, res, why)
        if check_run(eng, run, H['data'], H['items'], res, mkcase):
            okp += 1
            if okp == 1 and res['counters'].get('wit', 0) < 3 and eng.check3() == 'sat':
                res.count('wit')
                res['witnesses'].append(case_of(eng.model(), H, run, seq, mode, via, bufsize, "witness"))
    res.absorb_engine(eng)
    res.count('sequences')
    return okp


def case_of(model, H, run, seq, mode, via, bufsize, why):
    from . import concrete
    data = H['data']
    raw = bytearray(rdrdrv.model_bytes(model, data))
    # make every generated frame valid with the independent reference CRC
    exp = []
    for it in H['items']:
        if it.frame:
            body = bytes(raw[it.start:it.end - 3])
            raw[it.end - 3:it.end] = concrete.crc24q_ref(body).to_bytes(3, "big")
            if it.payload_len >= 2:
                exp.append(bytes(raw[it.start:it.end]).hex())
    c = {'kind': 'stream' if via == 'file' else 'socket', 'data': bytes(raw).hex(), 'mode': mode, 'checks': ['frames', 'c04'], 'expect_frames': exp,
         'seq': list(seq), 'why': why, 'dedup': f"{via}:{seq}:{why[:40]}"}
    if via != 'file':
        st = H['st']
        c['recv_log'] = list(st.log)
        c['bufsize'] = bufsize
    return c


def emit(eng, H, run, seq, mode, via, bufsize, res, why):
    if eng.check3() == 'sat':
        res['cex'].append(case_of(eng.model(), H, run, seq, mode, via, bufsize, why))
    else:
        res['harness_errors'].append(f"{seq}: no model for {why}")


def run_job(spec):
    shims.install()
    res = JobResult(str(spec)[:60])
    kind = spec[0]
    if kind == 'file':
        _, start, per, maxn = spec
        seqs = []
        for n in range(1, maxn + 1):
            seqs += list(itertools.product(QK, repeat=n))
        for j, seq in enumerate(seqs[start:start + per]):
            run_seq(seq, (start + j) % 3, res)
    elif kind == 'sock':
        _, n, start, per, cuts, bufsize = spec
        seqs = list(itertools.product(QS, repeat=n))
        for j, seq in enumerate(seqs[start:start + per]):
            run_seq(seq, 1, res, via='sock', maxcuts=cuts, bufsize=bufsize)
    elif kind == 'sockpick':
        _, n, idxs, cuts, bufsize = spec
        seqs = list(itertools.product(QS, repeat=n))
        for i in idxs:
            run_seq(seqs[i], 1, res, via='sock', maxcuts=cuts, bufsize=bufsize)
    else:
        run_seq(spec[1], 1, res)
        run_seq(spec[1], 2, res)
        run_seq(spec[1], 1, res, via='sock', maxcuts=0, bufsize=512)   # segmentation every 512 bytes (C11 covers arbitrary cuts)
    if not res['samples']:
        res['samples'].append({'job': list(spec)[:4], 'sequences': res['counters'].get('sequences', 0), 'paths': res['paths']})
    return res


def vacuity(tier, results, counters):
    if counters.get('sequences', 0) < 500:
        return [f"only {counters.get('sequences', 0)} sequences explored"]
    return []
