"""C10 — message layouts conform to the published standards and to each other.
(a) decodability: every defined identity decodes for every structure of the bound; definitions are well-shaped, name only defined fields, and
    counters/conditions refer to earlier fields;
(b) lengths: for pinned types the bits consumed equal the standard's formula: decided on the code (a symbolic payload of exactly ceil(S/8) bytes
    decodes on every path, one byte less is rejected on every path) and on the tables (independent layout walker total == pinned S, bit exact);
(c) siblings: composite SSR blocks equal orbit block followed by clock block; extended observables contain the basic ones; one MSM layout per
    level for all constellations; all IGS constellations share IGM01-07.  Decided on shared symbolic block bits (attribute terms must be equal)
    and on the field sequences."""
import glob
import json
import os

import z3

from . import sym, shims, msgdrv, structs, concrete, oracle_layout as ol
from .core import JobResult, REPO
from .sym import SymBytes, SymInt

SPEC = os.path.join(os.path.dirname(os.path.dirname(os.path.abspath(__file__))), "spec")
META = {
    "level": "model_checking",
    "functions": ["pyrtcm.rtcmmessage.RTCMMessage (constructor, _get_dict dispatch)", "definition tables rtcmtypes_core / rtcmtypes_get / _msm / _igs"],
    "transforms": ["if-conversion", "predication"],
    "shims": ["int", "bin", "chr"],
    "bounds": {"quick": "all defined identities x C03-quick structures for decodability; pinned length formulas (about 90 identities incl. 49 MSM and 36 IGS) at counts "
                        "0,1,2,3 / mask shapes up to 2x2; sibling relations at one and two satellites per block with all block bits symbolic",
               "thorough": "counts up to 5, MSM shapes up to 3x3, siblings at 1-3 satellites"},
    "outside": "types listed under 'unpinned' in spec/lengths.json (no length pin); resolutions/units of fields (only widths, order, types are related)",
    "assumptions": ["pinned formulas in spec/lengths.json and relations in spec/siblings.json were written from the standards; each pin is cross-checked against the "
                    "recorded frames in the repository's tests and dropped (listed) if it fails its own cross-check"],
}
WALL_BUDGET = {"quick": 900, "thorough": 3000}


def spec_lengths():
    return json.load(open(os.path.join(SPEC, "lengths.json")))


def spec_siblings():
    return json.load(open(os.path.join(SPEC, "siblings.json")))


def pinned_formula(ident, pins):
    if ident in pins and isinstance(pins[ident], dict) and 'hdr' in pins[ident]:
        return ('lin', pins[ident])
    if 1071 <= int(ident[:4]) <= 1137 and ident[3] in "1234567" and "_" not in ident:
        return ('msm', ident[3])
    if ident == "4076_201":
        return ('harm', pins['harm'])
    if ident.startswith("4076_") and ident[7] in pins['igm'] and ident[5:7] in ("02", "04", "06", "08", "10", "12"):
        return ('lin', pins['igm'][ident[7]])
    return None


def eval_formula(f, lay):
    """pinned total for the structural values the walker read (lay.struct)"""
    kind, spec = f
    if kind == 'msm':
        pins = spec_lengths()['msm']
        ns, ng, nc = lay.derived['NSat'], lay.derived['NSig'], lay.derived['NCell']
        return pins['hdr'] + ns * ng + ns * pins['sat'][spec] + nc * pins['sig'][spec]
    if kind == 'harm':
        vals = {name: v for (name, off, w, what, v) in lay.struct}
        total = spec['hdr']
        for li in range(1, vals["IDF035"] + 2):
            n, m = vals[f"IDF037_{li:02d}"] + 1, vals[f"IDF038_{li:02d}"] + 1
            nc = (n + 1) * (n + 2) // 2 - (n - m) * (n - m + 1) // 2
            total += spec['layer'] + spec['coeff'] * (nc + nc - (n + 1))
        return total
    total = spec['hdr']
    for (name, off, w, what, v) in lay.struct:
        key = name
        while key not in spec['per'] and "_" in key:
            key = key.rsplit("_", 1)[0]
        if key in spec['per'] and what == 'value':
            total += spec['per'][key] * v
    return total


def jobs(tier, seed):
    ids = structs.all_identities()
    out = [('static',)]
    per = 6
    for i in range(0, len(ids), per):
        out.append(('decode', ids[i:i + per], tier, seed))
    pins = spec_lengths()
    pinned = [i for i in ids if pinned_formula(i, pins)]
    for i in range(0, len(pinned), per):
        out.append(('length', pinned[i:i + per], tier))
    sib = spec_siblings()
    for c in sib['composite']:
        out.append(('composite', c, tier))
    out.append(('contains', sib['contains']))
    out.append(('parallel',))
    return out


# ----------------------------------------------------------------------------------------------

def run_static(res):
    """shape of every definition; fields defined; counters refer to earlier fields (walker with counts 1)"""
    tb = ol.tables()
    for ident in sorted(tb['payloads']):
        res['obligations'] += 1
        try:
            ol.validate_shape(tb['payloads'][ident], ident)
            k = structs.kind_of(ident)
            st = dict(nsat=1, nsig=1, cellmask='ones', maskmode='value') if k == 'msm' else dict(harm=(1, 1, 1)) if k == 'harm' else \
                dict(flags=15) if k == 'flags' else dict(mode=('uniform', 2))
            msgdrv.Directed(ident, structs.chooser(st), spare=0)
            res['discharged'] += 1
        except ol.BadDefinition as e:
            res['refuted'] += 1
            res['cex'].append({'kind': 'definition', 'ident': ident, 'why': str(e), 'dedup': f"def:{str(e).split(':')[-1][:40]}"})
    # dispatch: every key of the three tables is reachable through the identity ranges
    for ident in sorted(tb['payloads']):
        res['obligations'] += 1
        num = int(ident[:4])
        in_msm, in_igs = ident in tb['msm'], ident in tb['igs']
        ok = (in_msm == (1070 <= num <= 1229)) and (in_igs == (num == 4076)) if (in_msm or in_igs) else not (1070 <= num <= 1229 or num == 4076)
        if ok:
            res['discharged'] += 1
        else:
            res['refuted'] += 1
            res['cex'].append({'kind': 'definition', 'ident': ident, 'why': f"{ident} is defined in a table its message number is not dispatched to", 'dedup': f"dispatch:{ident}"})
    res['paths'] += 1
    res['decisions'] += 1


def run_decode(spec, res):
    from . import h_C03
    _, ids, tier, seed = spec
    for ident in ids:
        if not structs.wellformed(ident):
            continue
        for st in structs.structures(ident, tier, seed):
            n0 = len(res['cex'])
            h_C03.run_structure(ident, st, res, checks=('decodable', 'total'))
            # C10 reports decodability only: field-value / name refutations belong to C03
            res['cex'][n0:] = [c for c in res['cex'][n0:] if str(c.get('why', '')).startswith("complete payload rejected")]
        res.count('decodable_ids')
    res['refuted'] = len(res['cex'])
    res['obligations'] = res['discharged'] + res['refuted']


def run_length(spec, res):
    from pyrtcm.rtcmmessage import RTCMMessage
    _, ids, tier = spec
    pins = spec_lengths()
    dropped = pin_hygiene(pins)
    for ident in ids:
        f = pinned_formula(ident, pins)
        if f is None or ident in dropped or not structs.wellformed(ident):
            continue
        k = structs.kind_of(ident)
        if k == 'msm':
            sts = [dict(nsat=a, nsig=b, cellmask=cm, maskmode='value', seed=a + b) for (a, b, cm) in ((0, 0, 'zero'), (1, 1, 'ones'), (2, 1, 'ones'), (2, 2, 7), (1, 2, 'zero'))]
            if tier != 'quick':
                sts += [dict(nsat=3, nsig=3, cellmask=11, maskmode='value', seed=9), dict(nsat=4, nsig=2, cellmask='ones', maskmode='value', seed=8)]
        elif k == 'harm':
            sts = [dict(harm=h) for h in ((0, 0, 0), (0, 1, 0), (0, 1, 1), (0, 2, 0), (1, 2, 1), (0, 3, 1), (2, 1, 1), (0, 5, 2), (0, 15, 15), (0, 15, 3))] + [dict(harm=(1, 1, 1), harmvary=1), dict(harm=(2, 3, 1), harmvary=2)]
        elif k == 'flags':
            sts = [dict(flags=x) for x in range(16)]
        else:
            cs = (0, 1, 2, 3) if tier == 'quick' else (0, 1, 2, 3, 4, 5)
            sts = [dict(mode=('uniform', c)) for c in cs] + [dict(mode=('seeded', 3), seed=5)]
        for st in sts:
            d0 = msgdrv.Directed(ident, structs.chooser(st), spare=0)
            S = eval_formula(f, d0.layout)
            res['obligations'] += 1
            if d0.total != S:
                res['refuted'] += 1
                pl, _ = structs.concrete_payload(ident, structs.chooser(st), __import__('random').Random(1), spare=0)
                res['cex'].append({'kind': 'length', 'ident': ident, 'struct': st, 'pinned_bits': S, 'table_bits': d0.total,
                                   'why': f"{ident} {st}: definition occupies {d0.total} bits, the standard specifies {S}", 'dedup': f"len:{ident}"})
                continue
            res['discharged'] += 1
            need = (S + 7) // 8
            if need > 1023:
                continue
            for L, want in ((need, 'accept'), (need - 1, 'reject')):
                if L < (3 if "_" in ident else 2):
                    continue
                d = msgdrv.Directed(ident, structs.chooser(st), length=L)
                eng = sym.Engine(max_paths=32, conc_limit=8)

                def fn():
                    return RTCMMessage(payload=d.build(eng))
                for path in eng.explore(fn):
                    if path.kind == 'abort':
                        continue
                    res['obligations'] += 1
                    got = 'accept' if path.kind == 'ret' else 'reject' if path.kind == 'exc' else None
                    if got is None:
                        res['obligations'] -= 1
                        res['inconclusive'].append(f"{ident} {st} L={L}: {path.kind}")
                    elif got == want:
                        res['discharged'] += 1
                    else:
                        res['refuted'] += 1
                        if eng.check3() == 'sat':
                            res['cex'].append({'kind': 'construct', 'payload': d.payload_from_model(eng.model()).hex(),
                                               'checks': ['decodable' if want == 'accept' else 'overrun'], 'ident': ident,
                                               'why': f"{ident} {st}: payload of {L} bytes is {got}ed, the standard length is {S} bits", 'dedup': f"lenrun:{ident}:{want}"})
                res.absorb_engine(eng)
            res.count('length_structs')
        if len(res['witnesses']) < 2:
            pl, _ = structs.concrete_payload(ident, structs.chooser(sts[min(1, len(sts) - 1)]), __import__('random').Random(3), spare=0)
            res['witnesses'].append({'kind': 'construct', 'payload': pl.hex(), 'checks': ['decodable', 'fields', 'total']})
    for dname in dropped:
        res['notes'].append(f"pin for {dname} dropped: fails its cross-check against a recorded frame")


_HYG = None


def pin_hygiene(pins):
    """every pinned formula must reproduce the payload length of every recorded frame of that type in the repository's tests"""
    global _HYG
    if _HYG is not None:
        return _HYG
    bad = set()
    files = glob.glob(os.path.join(REPO, "tests", "*.log")) + glob.glob(os.path.join(REPO, "tests", "*.bin"))
    for fn in files:
        data = open(fn, "rb").read()
        i = 0
        while i + 6 <= len(data):
            if data[i] == 0xD3 and data[i + 1] & 0xFC == 0:
                n = (data[i + 1] & 3) << 8 | data[i + 2]
                fr = data[i:i + n + 6]
                if len(fr) == n + 6 and concrete.crc24q_ref(fr) == 0 and n >= 2:
                    payload = fr[3:-3]
                    ident, lay, over = concrete.concrete_layout(payload)
                    f = pinned_formula(ident, pins) if ident else None
                    if f and lay is not None and not over:
                        try:
                            S = eval_formula(f, lay)
                            if (S + 7) // 8 > n:      # receivers may pad a frame, but a frame can never be shorter than its fields
                                bad.add(ident)
                        except Exception:  # noqa
                            pass
                    i += n + 6
                    continue
            i += 1
    _HYG = bad
    return bad


def bytes_from_bits(bits):
    """SymBytes from a list of z3 1..n-bit terms (MSB first), zero-padded to a whole number of bytes"""
    t = z3.Concat(*bits) if len(bits) > 1 else bits[0]
    pad = (-t.size()) % 8
    if pad:
        t = z3.Concat(t, z3.BitVecVal(0, pad))
    n = t.size() // 8
    return SymBytes([SymInt(z3.ZeroExt(1, z3.Extract(8 * (n - i) - 1, 8 * (n - i - 1), t))) for i in range(n)])


def group_fields(lay):
    """fields inside repeat groups (depth >= 1), in order"""
    return [f for f in lay.fields if len(f.idx) >= 1]


def run_composite(spec, res):
    """composite = part1 block followed by part2 block minus its leading satellite ID: field sequences, and attribute terms on shared bits"""
    from pyrtcm.rtcmmessage import RTCMMessage
    _, (cid, p1, p2), tier = spec
    if not all(structs.wellformed(x) for x in (cid, p1, p2)):
        return
    for nsat in ((1, 2) if tier == 'quick' else (1, 2, 3)):
        ch = structs.chooser(dict(mode=('uniform', nsat)))
        dc = msgdrv.Directed(cid, ch, spare=0, pname="c")
        d1 = msgdrv.Directed(p1, ch, spare=0, pname="a")
        d2 = msgdrv.Directed(p2, ch, spare=0, pname="b")
        gc, g1, g2 = group_fields(dc.layout), group_fields(d1.layout), group_fields(d2.layout)
        # sequence clause, per satellite block
        res['obligations'] += 1
        per = lambda g, n: [(f.key, f.w, f.typ, f.res) for f in g if f.idx[0] == n]
        ok = True
        for s_ in range(1, nsat + 1):
            if per(gc, s_) != per(g1, s_) + per(g2, s_)[1:] or (per(g2, s_) and per(g1, s_) and per(g2, s_)[0] != per(g1, s_)[0]):
                ok = False
        if ok:
            res['discharged'] += 1
        else:
            res['refuted'] += 1
            res['cex'].append({'kind': 'siblings', 'ids': [cid, p1, p2], 'relation': 'composite', 'nsat': nsat,
                               'why': f"satellite block of {cid} is not the block of {p1} followed by the block of {p2} (minus the repeated satellite ID)",
                               'dedup': f"composite:{cid}"})
            continue
        # decode clause: the same symbolic block bits under the three definitions
        eng = sym.Engine(max_paths=8, conc_limit=4)

        def fn():
            pc = dc.build(eng)
            P, nb = dc.P, dc.nb
            c0 = gc[0].off
            blocks1, blocks2 = [], []
            for s_ in range(1, nsat + 1):
                fs = [f for f in gc if f.idx[0] == s_]
                n1 = len(per(g1, s_))
                b1 = [msgdrv.fterm(P, nb, f.off, f.w) for f in fs[:n1]]
                b2 = [msgdrv.fterm(P, nb, fs[0].off, fs[0].w)] + [msgdrv.fterm(P, nb, f.off, f.w) for f in fs[n1:]]
                blocks1 += b1
                blocks2 += b2
            outs = []
            for d, blocks in ((d1, blocks1), (d2, blocks2)):
                hdr_bits = group_fields(d.layout)[0].off
                q = d.build(eng)
                hdr = [msgdrv.fterm(d.P, d.nb, 0, hdr_bits)] if hdr_bits else []
                outs.append(RTCMMessage(payload=bytes_from_bits(hdr + blocks)))
            return RTCMMessage(payload=pc), outs[0], outs[1]
        for path in eng.explore(fn):
            if path.kind == 'abort':
                continue
            res['obligations'] += 1
            if path.kind != 'ret':
                res['obligations'] -= 1
                res['inconclusive' if path.kind != 'exc' else 'notes'].append(f"{spec}: {path.kind} {str(path.value)[:80]}")
                continue
            mc, m1, m2 = path.value
            ac, a1, a2 = (msgdrv.public_attrs(m) for m in (mc, m1, m2))
            bad = []
            for part, pa in ((p1, a1), (p2, a2)):
                for k, v in pa.items():
                    if "_" in k and k.rsplit("_", 1)[1].isdigit():
                        if k not in ac:
                            bad.append(f"{part}.{k} has no counterpart in {cid}")
                        else:
                            c = value_eq(eng, v, ac[k])
                            if c is not True:
                                bad.append(f"{k} decodes differently in {part} and {cid}")
                if bad:
                    break
            if bad:
                res['refuted'] += 1
                res['cex'].append({'kind': 'siblings', 'ids': [cid, p1, p2], 'relation': 'composite', 'nsat': nsat, 'why': "; ".join(bad[:2]), 'dedup': f"compdec:{cid}"})
            else:
                res['discharged'] += 1
            res.count('sibling_paths')
        res.absorb_engine(eng)


def value_eq(eng, a, b):
    ta, tb_ = sym.term_of(a), sym.term_of(b)
    if isinstance(a, sym.SymScaled) != isinstance(b, sym.SymScaled) or (isinstance(a, sym.SymScaled) and a.f != b.f):
        return False
    if len(ta) != len(tb_):
        return False
    if not ta:
        return a == b
    for x, y in zip(ta, tb_):
        if x.eq(y):
            continue
        W = max(x.size(), y.size())
        if eng.check3(sym.sx(x, W) != sym.sx(y, W)) != 'unsat':
            return False
    return True


def run_contains(spec, res):
    """the group of the extended message contains the fields of the basic one in order; the top level of the basic one is a prefix"""
    _, pairs = spec
    for big, small in pairs:
        if not (structs.wellformed(big) and structs.wellformed(small)):
            continue
        ch = structs.chooser(dict(mode=('uniform', 1)))
        lb, ls = msgdrv.Directed(big, ch, spare=0).layout, msgdrv.Directed(small, ch, spare=0).layout
        sig = lambda f: (f.key, f.w, f.typ, f.res)
        res['obligations'] += 1
        tb_, ts = [sig(f) for f in lb.fields if not f.idx and f.key != "DF002"], [sig(f) for f in ls.fields if not f.idx and f.key != "DF002"]
        gb, gs = [sig(f) for f in lb.fields if f.idx], [sig(f) for f in ls.fields if f.idx]
        it = iter(gb)
        sub = all(any(x == y for y in it) for x in gs)
        it2 = iter(tb_)
        subtop = all(any(x == y for y in it2) for x in ts)
        if sub and subtop:
            res['discharged'] += 1
        else:
            res['refuted'] += 1
            res['cex'].append({'kind': 'siblings', 'ids': [big, small], 'relation': 'contains', 'why': f"{big} does not contain the fields of {small} in order", 'dedup': f"contains:{big}:{small}"})
        res.count('sibling_paths')
    res['paths'] += 1
    res['decisions'] += 1


def run_parallel(res):
    """one MSM layout per level for all constellations (after the epoch field); all IGS constellations share IGM01-07"""
    from pyrtcm.rtcmmessage import RTCMMessage
    tb = ol.tables()
    sig = lambda f: (f.w, f.typ, 0 if f.res in (0, 1) else f.res, len(f.idx))
    ch = structs.chooser(dict(nsat=2, nsig=2, cellmask='ones', maskmode='value', seed=1))
    for lvl in "1234567":
        ref = None
        for b in structs.MSM_BASES:
            ident = str(b + int(lvl))
            if ident not in tb['msm'] or not structs.wellformed(ident):
                continue
            lay = msgdrv.Directed(ident, ch, spare=0).layout
            keys = [f.key for f in lay.fields]
            start = keys.index("DF393") if "DF393" in keys else 0     # same field sequence after the (constellation specific) epoch field
            seq = [sig(f) for f in lay.fields[start:]]
            epoch_bits = lay.fields[start].off
            res['obligations'] += 1
            if ref is None:
                ref = (ident, seq, epoch_bits)
                res['discharged'] += 1
            elif seq == ref[1] and epoch_bits == ref[2]:
                res['discharged'] += 1
            else:
                res['refuted'] += 1
                res['cex'].append({'kind': 'siblings', 'ids': [ref[0], ident], 'relation': 'parallel-msm', 'why': f"MSM{lvl}: {ident} is laid out differently from {ref[0]}", 'dedup': f"msm:{lvl}:{ident}"})
            res.count('sibling_paths')
    ch1 = structs.chooser(dict(mode=('uniform', 2)))
    fams = spec_siblings()['igs_families']
    for k in "1234567":
        ref = None
        for fam in fams:
            ident = f"4076_{fam}{k}"
            if ident not in tb['igs'] or not structs.wellformed(ident):
                continue
            lay = msgdrv.Directed(ident, ch1, spare=0).layout
            seq = [(f.key,) + sig(f) for f in lay.fields]
            res['obligations'] += 1
            if ref is None:
                ref = (ident, seq)
                res['discharged'] += 1
            elif seq == ref[1]:
                res['discharged'] += 1
            else:
                res['refuted'] += 1
                res['cex'].append({'kind': 'siblings', 'ids': [ref[0], ident], 'relation': 'parallel-igs', 'why': f"IGM0{k}: {ident} differs from {ref[0]}", 'dedup': f"igs:{k}:{ident}"})
            res.count('sibling_paths')
    res['paths'] += 1
    res['decisions'] += 1


def run_job(spec):
    msgdrv.install()
    res = JobResult(str(spec)[:70])
    k = spec[0]
    if k == 'static':
        run_static(res)
    elif k == 'decode':
        run_decode(spec, res)
    elif k == 'length':
        run_length(spec, res)
    elif k == 'composite':
        run_composite(spec, res)
    elif k == 'contains':
        run_contains(spec, res)
    else:
        run_parallel(res)
    res['samples'].append({'job': [str(x)[:60] for x in spec]})
    return res


def vacuity(tier, results, counters):
    errs = []
    if counters.get('length_structs', 0) < 200:
        errs.append(f"only {counters.get('length_structs', 0)} pinned length structures")
    if counters.get('sibling_paths', 0) < 60:
        errs.append(f"only {counters.get('sibling_paths', 0)} sibling checks")
    return errs
