"""C14 — parsed messages are immutable."""
import z3

from . import sym, shims, msgdrv, structs, rdrdrv, h_C09, oracle_layout as ol
from .core import JobResult
from .sym import SymStr, SymInt, SymBytes

META = {
    "level": "model_checking",
    "functions": ["pyrtcm.rtcmmessage.RTCMMessage.__setattr__", ".__init__ (immutable flag)", ".payload", ".identity", ".serialize", ".__str__"],
    "transforms": ["if-conversion", "predication"],
    "shims": ["int", "bin", "chr"],
    "bounds": {"quick": "every defined identity plus unknown, reserved and undefined 4076 sub-types, payload bits symbolic; "
                        "attribute names: every existing attribute, payload/identity/ismsm/_immutable/_payload/_unknown, fresh names, and symbolic names of 1..4 free "
                        "characters; assigned value a free integer (so 'equal to the current value' is covered) plus float/bytes/str/None; sequences of two attempts",
               "thorough": "every defined identity; symbolic names up to 8 characters; three attempts"},
    "outside": "object.__setattr__ / __dict__ manipulation that bypasses the class (not attribute assignment)",
    "assumptions": [],
}
WALL_BUDGET = {"quick": 900, "thorough": 3000}
EXTRA = ["payload", "identity", "ismsm", "_immutable", "_payload", "_payloadi", "_unknown", "_satmap", "_labelmsm", "newattr", "DF999", "x", "__class__"]


def jobs(tier, seed):
    ids = [i for i in structs.all_identities() if structs.wellformed(i)]
    out = []
    for part in ('names', 'sym'):       # concrete-name plans first: cheap, and their counterexamples return early
        out += [('defined', i, tier, part) for i in ids]
        out += [('unknown', n, tier, part) for n in (4072, 1070, 999, 4095)] + [('unknown4076', 250, tier, part), ('unknown4076', 28, tier, part)]
    return out


def snapshot(m):
    return dict(m.__dict__)


def unchanged(before, m):
    after = m.__dict__
    if list(before) != list(after):
        return f"attribute set changed: {sorted(set(before) ^ set(after))[:3]}"
    for k in before:
        if before[k] is not after[k]:
            return f"attribute {k} was replaced"
    return None


def attempt(m, name, value):
    """returns None if the assignment was refused with RTCMMessageError, else a description"""
    from pyrtcm.exceptions import RTCMMessageError
    try:
        if isinstance(name, str):
            setattr(m, name, value)
        else:
            type(m).__setattr__(m, name, value)
    except RTCMMessageError:
        return None
    except sym.EngineSignal:
        raise
    except TypeError as e:
        if "attribute name must be string" in str(e):
            raise sym.Unsupported("symbolic attribute name reached a builtin")
        return f"raised TypeError: {e}"
    except Exception as e:  # noqa
        return f"raised {type(e).__name__} instead of the library's message error"
    return "assignment was accepted"


def run_msg(build, label, tier, res, is_unknown=False, part='names'):
    from pyrtcm.rtcmmessage import RTCMMessage
    # names present on one concrete-structure instance (the attribute set does not depend on the symbolic bits in directed mode)
    eng0 = sym.Engine(max_paths=4, conc_limit=4)
    names = []
    H = {}

    def fn0():
        p = build(eng0)
        H['p'] = p
        return RTCMMessage(payload=p)
    for path in eng0.explore(fn0):
        if path.kind == 'ret':
            names = list(path.value.__dict__)
        break
    if not names:
        res['notes'].append(f"{label}: no message constructed")
        return
    allnames = names + [n for n in EXTRA if n not in names]
    values = [('sym', None), ('c', 0.0), ('c', b"x"), ('c', None), ('c', "N/A")]
    lens = (1, 2, 3, 4) if tier == 'quick' else (1, 2, 3, 4, 5, 6, 8)
    plans = [('names', allnames)] if part == 'names' else [('symname', n) for n in lens]
    for plan in plans:
        eng = sym.Engine(max_paths=600, conc_limit=8)
        eng.time_budget = 120 if part == 'names' else 40
        if part != 'names':
            eng.query_timeout_ms = 10000
        H = {}

        def fn():
            p = build(eng)
            H['p'] = p
            m = RTCMMessage(payload=p)
            H['m'] = m
            before = snapshot(m)
            ser0 = m.serialize()
            ident0 = m.identity
            log = []
            if plan[0] == 'names':
                for i, nm in enumerate(plan[1]):
                    for vi, (vk, vv) in enumerate(values):
                        if vk == 'sym':
                            vv = sym.symint(f"v{i}", 40, signed=True)
                        elif i % 4 != vi % 4 and nm not in ("_payload", "payload", "_immutable"):
                            continue
                        r = attempt(m, nm, vv)
                        u = unchanged(before, m)
                        log.append((nm, vk, vv, r, u))
                        if r or u:
                            return m, log, ser0, ident0
            else:
                n = plan[1]
                cs = [sym.symint(f"n{j}", 8) for j in range(n)]
                for c in cs:
                    eng.assume(z3.And(c.t >= 33, c.t <= 126))
                name = SymStr(cs)
                v = sym.symint("v", 40, signed=True)
                for rep in range(2):
                    r = attempt(m, name, v)
                    u = unchanged(before, m)
                    log.append((name, 'sym', v, r, u))
                    if r or u:
                        break
            return m, log, ser0, ident0
        for path in eng.explore(fn):
            if path.kind == 'abort':
                continue
            res['obligations'] += 1
            if path.kind == 'unsupported' and plan[0] == 'symname':
                res['obligations'] -= 1
                res.count('symbolic_name_unsupported')
                continue
            if path.kind != 'ret':
                res['obligations'] -= 1
                if path.kind == 'exc':
                    res['obligations'] += 1
                    res['refuted'] += 1
                    res['harness_errors'].append(f"{label}: constructor/serialize raised {type(path.value).__name__}: {str(path.value)[:60]}")
                else:
                    res['inconclusive'].append(f"{label} {plan[0]}: {path.kind} {str(path.value)[:60]}")
                continue
            m, log, ser0, ident0 = path.value
            bad = None
            for (nm, vk, vv, r, u) in log:
                if r or u:
                    bad = (nm, vk, vv, r or u)
                    break
            if bad is None:
                ser1 = m.serialize()
                if not sym.same_bytes(list(ser1), list(ser0)) or m.identity != ident0 or m.payload is not H['p']:
                    bad = (log[-1][0] if log else '?', 'c', None, "payload / identity / serialised bytes changed")
            if bad is None:
                res['discharged'] += 1
            else:
                res['refuted'] += 1
                nm, vk, vv, why = bad
                if eng.check3() == 'sat':
                    mdl = eng.model()
                    pl = bytes(mdl.eval(sym.byte_term(e), model_completion=True).as_long() if not isinstance(e, int) else e for e in H['p'].e)
                    cname = nm if isinstance(nm, str) else "".join(c if isinstance(c, str) else chr(mdl.eval(c.t, model_completion=True).as_long()) for c in nm.cs)
                    if isinstance(vv, SymInt):
                        cval = ['int', mdl.eval(vv.t, model_completion=True).as_signed_long()]
                    else:
                        cval = ['repr', repr(vv)]
                    res['cex'].append({'kind': 'setattr', 'payload': pl.hex(), 'name': cname, 'value': cval, 'why': f"{label}: {cname!r}: {why}",
                                       'dedup': f"{label[:4]}:{why[:30]}:{'priv' if cname.startswith('_') else 'pub'}"})
            res.count('attempt_paths')
        res.absorb_engine(eng)
    if len(res['witnesses']) < 2 and part == 'names':
        eng = sym.Engine(max_paths=2)
        for path in eng.explore(fn0):
            if path.kind == 'ret' and eng.check3() == 'sat':
                mdl = eng.model()
                pl = bytes(mdl.eval(sym.byte_term(e), model_completion=True).as_long() if not isinstance(e, int) else e for e in H['p'].e)
                for nm in (names[min(3, len(names) - 1)], "_payload", "brandnew"):
                    res['witnesses'].append({'kind': 'setattr', 'payload': pl.hex(), 'name': nm, 'value': ['int', 7]})
            break


def run_job(spec):
    msgdrv.install()
    res = JobResult(str(spec))
    kind = spec[0]
    if kind == 'defined':
        ident = spec[1]
        k = structs.kind_of(ident)
        st = dict(nsat=1, nsig=1, cellmask='ones', maskmode='value', seed=5) if k == 'msm' else dict(harm=(0, 1, 0)) if k == 'harm' else \
            dict(flags=3) if k == 'flags' else dict(mode=('uniform', 1))
        d = msgdrv.Directed(ident, structs.chooser(st), spare=0)
        run_msg(lambda eng: msgdrv.Directed(ident, structs.chooser(st), spare=0).build(eng), ident, spec[2], res, part=spec[3])
    elif kind == 'unknown':
        num = spec[1]

        def build(eng):
            p = sym.symbytes("p", 5)
            eng.assume(msgdrv.fterm(p.term(), 40, 0, 12) == num)
            return p
        run_msg(build, str(num), spec[2], res, True, part=spec[3])
    else:
        sub = spec[1]

        def build(eng):
            p = sym.symbytes("p", 6)
            eng.assume(msgdrv.fterm(p.term(), 48, 0, 12) == 4076)
            eng.assume(msgdrv.fterm(p.term(), 48, 15, 8) == sub)
            return p
        run_msg(build, f"4076_{sub:03d}", spec[2], res, True, part=spec[3])
    res['samples'].append({'job': [str(x) for x in spec], 'attempt_paths': res['counters'].get('attempt_paths', 0)})
    return res


def vacuity(tier, results, counters):
    if counters.get('attempt_paths', 0) < 100:
        return [f"only {counters.get('attempt_paths', 0)} assignment paths"]
    return []
