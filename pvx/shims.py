"""Shims (module-global shadowing of builtins inside the checking process) and environment doubles.
Nothing under /repo is edited.  Every shim and double is part of each claim that uses it."""
import builtins
import logging
import socket

import z3

from . import sym
from .sym import SymInt, SymBool, SymBytes, SymStr, SymLabel, Unsupported, byte_term, bv

_real_int = builtins.int
_real_bytes = builtins.bytes


class _IntMeta(type):
    def __instancecheck__(cls, o):
        return isinstance(o, (_real_int, SymInt))


class IntShim(metaclass=_IntMeta):
    """`int` as seen by pyrtcm modules: accepts proxies, otherwise the builtin"""

    def __new__(cls, x=0, base=None):
        if isinstance(x, SymInt):
            return x
        if isinstance(x, SymStr):
            return x.to_int(10 if base is None else base)
        if isinstance(x, SymBytes):
            # int(b"1f", 16) on (partly) symbolic digits: concretise the digits (hex size lines)
            vals = [sym.ENG.concretize(c.t) if isinstance(c, SymInt) else c for c in x.e]
            b = _real_bytes(vals)
            return _real_int(b, base) if base is not None else _real_int(b)
        if isinstance(x, SymBool):
            return SymInt.lift(x)
        if isinstance(x, sym.SymScaled):
            raise Unsupported("int(scaled)")
        if base is not None:
            return _real_int(x, base)
        return _real_int(x)

    @staticmethod
    def from_bytes(b, byteorder="big", signed=False):
        if isinstance(b, SymBytes):
            if signed:
                raise Unsupported("signed from_bytes")
            es = b.e if byteorder == "big" else list(reversed(b.e))
            if not es:
                return 0
            if all(isinstance(e, _real_int) for e in es):
                return _real_int.from_bytes(_real_bytes(es), "big")
            parts = [byte_term(e) for e in es]
            t = z3.Concat(*parts) if len(parts) > 1 else parts[0]
            return SymInt(z3.ZeroExt(1, t))
        return _real_int.from_bytes(b, byteorder, signed=signed)


class _BinStr:
    def __init__(self, x):
        self.x = x

    def count(self, s):
        if s != "1":
            raise Unsupported("bin(x).count(%r)" % s)
        return sym.popcount(self.x)


def bin_shim(x):
    if isinstance(x, SymInt):
        return _BinStr(x)
    return bin(x)


def chr_shim(x):
    if isinstance(x, SymInt):
        return SymStr([x])
    return chr(x)


def str_shim_factory():
    class _StrMeta(type):
        def __instancecheck__(cls, o):
            return isinstance(o, (str, SymStr))

    class StrShim(metaclass=_StrMeta):
        def __new__(cls, x="", *a):
            if isinstance(x, SymInt):
                return str(sym.ENG.concretize(x.t))
            if isinstance(x, SymStr):
                return x
            return str(x, *a)
    return StrShim


def bytes_shim(x=b"", *a):
    if isinstance(x, SymBytes):
        return SymBytes(list(x.e)) if x.mutable else x
    if isinstance(x, SymView):
        return SymBytes(list(x.b.e))
    return _real_bytes(x, *a)


class SymBytesIO:
    """io.BytesIO over SymBytes (readline / read)"""

    def __init__(self, b=b""):
        self.b = b if isinstance(b, SymBytes) else SymBytes(list(b))
        self.pos = 0

    def readline(self):
        out = []
        while self.pos < len(self.b):
            c = self.b.e[self.pos]
            self.pos += 1
            out.append(c)
            if isinstance(c, _real_int):
                if c == 0x0A:
                    break
            elif sym.ENG.decide(byte_term(c) == 0x0A):
                break
        return SymBytes(out)

    def read(self, n=-1):
        if isinstance(n, SymInt):
            n = sym.ENG.concretize(n.t)
        if n is None or n < 0:
            n = len(self.b) - self.pos
        out = self.b[self.pos:self.pos + n]
        self.pos += len(out)
        return out

    def getvalue(self):
        return SymBytes(list(self.b.e))

    def tell(self):
        return self.pos

    def seek(self, off, whence=0):
        if isinstance(off, SymInt):
            off = sym.ENG.concretize(off.t)
        base = 0 if whence == 0 else self.pos if whence == 1 else len(self.b)
        self.pos = max(0, min(len(self.b), base + off))
        return self.pos

    def __getattr__(self, name):
        if name.startswith("__"):
            raise AttributeError(name)
        raise Unsupported(f"BytesIO.{name} on symbolic bytes")


class SymView:
    """memoryview over symbolic bytes: context manager + slicing"""

    def __init__(self, b):
        self.b = b

    def __enter__(self):
        return self

    def __exit__(self, *a):
        return False

    def __getitem__(self, i):
        return self.b[i]

    def __len__(self):
        return len(self.b)

    def release(self):
        pass

    def tobytes(self):
        return SymBytes(list(self.b.e))


def memoryview_shim(x):
    if isinstance(x, SymBytes):
        return SymView(x)
    return memoryview(x)


class _BAMeta(type):
    def __instancecheck__(cls, o):
        return isinstance(o, bytearray) or (isinstance(o, SymBytes) and o.mutable)


class BytearrayShim(metaclass=_BAMeta):
    def __new__(cls, x=b"", *a):
        if isinstance(x, SymBytes):
            return SymBytes(list(x.e), mutable=True)
        if isinstance(x, SymView):
            return SymBytes(list(x.b.e), mutable=True)
        return bytearray(x, *a)


class MergedList(list):
    """a list of bytes constants whose `in` test is one decision instead of one fork per entry"""

    def __contains__(self, x):
        cs = []
        for e in self:
            r = (x == e)
            cs.append(sym.tob(r))
        return sym.ENG.decide(z3.Or(*cs))


class StrKeyMap:
    """a real dict with str keys that may be read with a symbolic string key: membership / lookup become one decision per
    candidate key of matching length instead of hashing (which would concretise every symbolic character)"""

    def __init__(self, d):
        self.d = d

    def _cands(self, k):
        out = []
        for key in self.d:
            if isinstance(key, str) and len(key) == len(k.cs) and all(isinstance(c, SymInt) or c == kc for c, kc in zip(k.cs, key)):
                out.append(key)
        return out

    def _find(self, k):
        for key in self._cands(k):
            if k == key:          # SymStr.__eq__: one decision
                return key
        return None

    def __contains__(self, k):
        if isinstance(k, SymStr):
            return self._find(k) is not None
        return k in self.d

    def __getitem__(self, k):
        if isinstance(k, SymStr):
            key = self._find(k)
            if key is None:
                raise KeyError(k.real())
            return self.d[key]
        return self.d[k]

    def get(self, k, default=None):
        if isinstance(k, SymStr):
            key = self._find(k)
            return default if key is None else self.d[key]
        return self.d.get(k, default)

    def __iter__(self):
        return iter(self.d)

    def __len__(self):
        return len(self.d)

    def items(self):
        return self.d.items()

    def keys(self):
        return self.d.keys()

    def values(self):
        return self.d.values()


class UFDecompress:
    """zlib.decompress as an uninterpreted function: 2 fresh symbolic bytes per distinct (wbits, data)"""

    def __init__(self):
        self.calls = []

    def __call__(self, data, wbits=15, bufsize=None):
        for (w, d, out) in self.calls:
            if w == wbits and sym.same_bytes(list(d), list(data)):
                return out
        n = len(self.calls)
        out = SymBytes([SymInt(z3.ZeroExt(1, z3.BitVec(f"Z{n}_{i}", 8))) for i in range(2)])
        self.calls.append((wbits, data if isinstance(data, SymBytes) else SymBytes(list(data)), out))
        return out


# ----------------------------------------------------------------------------------------------
# doubles
# ----------------------------------------------------------------------------------------------

class SymStream:
    """file-like double over SymBytes.  faults: number of injected short/empty reads still allowed;
    each read()/readline() call then forks normal / short / empty.  Records the offsets handed out."""

    def __init__(self, data, faults=0, tag="f"):
        self.d = data if isinstance(data, SymBytes) else SymBytes(list(data))
        self.pos = 0
        self.ncalls = 0
        self.faults = faults
        self.tag = tag
        self.log = []       # (kind, requested, start, returned length, fault)
        self.fault_seen = []

    def _fault(self, avail):
        """decide an injected fault for a request that could return `avail` bytes: returns new length or None"""
        if self.faults <= 0 or avail <= 0:
            return None
        eng = sym.ENG
        f = z3.Bool(f"{self.tag}_fault{self.ncalls}")
        if not eng.decide(f):
            return None
        self.faults -= 1
        k = SymInt(z3.ZeroExt(1, z3.BitVec(f"{self.tag}_flen{self.ncalls}", 12)))
        eng.assume(z3.And(k.t >= 0, k.t < avail))
        kv = eng.concretize(k.t, limit=avail + 1, small=avail)
        self.fault_seen.append((self.ncalls, kv))
        return kv

    def _cap(self):
        # a finite stream answers finitely many calls before a correct reader stops: far beyond that is a non-terminating loop
        if self.ncalls > 6 * len(self.d) + 64:
            raise sym.Budget(f"stream double called {self.ncalls} times for {len(self.d)} bytes")

    def read(self, n=-1):
        self.ncalls += 1
        self._cap()
        rem = max(0, len(self.d) - self.pos)     # a seek may have moved the position past the end
        if isinstance(n, SymInt):
            # bound the concretisation by what is left in the stream
            if sym.ENG.decide((n > rem).t):
                n = rem
            elif rem <= 16:
                n = sym.ENG.concretize(n.t, limit=rem + 2, small=rem + 1)
            else:
                n = sym.ENG.concretize(n.t)
        if n is None or n < 0:
            n = rem
        k = min(n, rem)
        fk = self._fault(k)
        fault = fk is not None
        if fault:
            k = fk
        out = self.d[self.pos:self.pos + k]
        self.log.append(('read', n, self.pos, k, fault))
        self.pos += k
        return out

    def readline(self):
        self.ncalls += 1
        self._cap()
        out = []
        start = self.pos
        while self.pos < len(self.d):
            c = self.d.e[self.pos]
            self.pos += 1
            out.append(c)
            if isinstance(c, _real_int):
                if c == 0x0A:
                    break
            elif sym.ENG.decide(byte_term(c) == 0x0A):
                break
        fk = self._fault(len(out))
        fault = fk is not None
        if fault:
            self.pos = start + fk
            out = out[:fk]
        self.log.append(('readline', None, start, len(out), fault))
        return SymBytes(out)

    # a file object is seekable: position arithmetic as io.BytesIO does it (whence 0/1/2, clamped at 0)
    def seekable(self):
        return True

    def readable(self):
        return True

    def tell(self):
        return self.pos

    def seek(self, off, whence=0):
        if isinstance(off, SymInt):
            off = sym.ENG.concretize(off.t)
        base = 0 if whence == 0 else self.pos if whence == 1 else len(self.d)
        new = base + off
        if new < 0:
            if whence == 0:
                raise ValueError(f"negative seek value {off}")
            new = 0
        self.pos = new
        return new


class SymSocket(socket.socket):
    """socket double: recv(bufsize) returns a solver-chosen 1..min(bufsize, remaining) bytes; at most
    `maxcuts` results are shorter than min(bufsize, remaining); `faults` TimeoutError/OSError raises may be
    injected before a receive; returns b'' once the source is exhausted (peer closed)."""

    def __init__(self, data, maxcuts=0, faults=0, tag="k"):
        super().__init__()
        self.d = data if isinstance(data, SymBytes) else SymBytes(list(data))
        self.pos = 0
        self.ncalls = 0
        self.cuts_left = maxcuts
        self.faults = faults
        self.tag = tag
        self.cuts = []
        self.closed_seen = False
        self.fault_calls = []
        self.lastcall = {}
        self.log = []      # replayable script: ['t'] timeout, ['o'] OSError, ['c'] closed, ['d', k] k bytes

    def recv(self, n, flags=0):
        eng = sym.ENG
        self.ncalls += 1
        self.lastcall = {'fault': False, 'closed': False}
        if self.faults > 0:
            f = z3.Bool(f"{self.tag}_fault{self.ncalls}")
            if eng.decide(f):
                self.faults -= 1
                self.fault_calls.append(self.ncalls)
                self.lastcall['fault'] = True
                if eng.decide(z3.Bool(f"{self.tag}_oserr{self.ncalls}")):
                    self.log.append(['o'])
                    raise OSError("injected")
                self.log.append(['t'])
                raise TimeoutError("injected")
        rem = max(0, len(self.d) - self.pos)     # a seek may have moved the position past the end
        if rem == 0:
            self.closed_seen = True
            self.lastcall['closed'] = True
            self.log.append(['c'])
            return b""
        if isinstance(n, SymInt):
            n = eng.concretize(n.t)
        full = min(n, rem)
        kv = full
        if self.cuts_left > 0 and full > 1:
            k = z3.BitVec(f"{self.tag}_len{self.ncalls}", 12)
            eng.assume(z3.And(z3.UGE(k, 1), z3.ULE(k, full)))
            kv = eng.concretize(z3.ZeroExt(1, k), limit=full + 1, small=0)
            if kv < full:
                self.cuts_left -= 1
        out = self.d[self.pos:self.pos + kv]
        self.pos += kv
        self.cuts.append(self.pos)
        self.log.append(['d', kv])
        return out


# ----------------------------------------------------------------------------------------------
# installation
# ----------------------------------------------------------------------------------------------

class Installed:
    """context: pyrtcm imported from /repo/src with shims in place and transforms applied"""


# ----------------------------------------------------------------------------------------------
# regular expressions over symbolic bytes: patterns that are a fixed-length sequence of byte classes
# ----------------------------------------------------------------------------------------------

def _byte_classes(pattern, flags=0):
    """[set of admissible byte values, ...] for a pattern made of literals / classes / '.', else None"""
    import re as _re
    try:
        parser = _re._parser
    except AttributeError:  # pragma: no cover
        import sre_parse as parser
    try:
        tree = parser.parse(pattern, flags)
    except Exception:  # noqa
        return None
    out = []
    for op, arg in tree:
        name = str(op)
        if name == 'LITERAL':
            out.append({arg})
        elif name == 'NOT_LITERAL':
            out.append(set(range(256)) - {arg})
        elif name == 'ANY':
            out.append(set(range(256)) - ({10} if not flags & _re.DOTALL else set()))
        elif name == 'IN':
            acc, neg = set(), False
            for o2, a2 in arg:
                n2 = str(o2)
                if n2 == 'NEGATE':
                    neg = True
                elif n2 == 'LITERAL':
                    acc.add(a2)
                elif n2 == 'RANGE':
                    acc |= set(range(a2[0], a2[1] + 1))
                else:
                    return None
            out.append(set(range(256)) - acc if neg else acc)
        else:
            return None
    return out


class MatchShim:
    def __init__(self, data, i, j):
        self._d, self._i, self._j = data, i, j

    def start(self, g=0):
        return self._i

    def end(self, g=0):
        return self._j

    def span(self, g=0):
        return (self._i, self._j)

    def group(self, g=0):
        return self._d[self._i:self._j]

    def __getitem__(self, g):
        return self.group(g)

    def __getattr__(self, name):
        raise sym.Unsupported(f"re.Match.{name} on symbolic bytes")


class PatternShim:
    """compiled pattern: concrete subjects go to the real pattern; symbolic byte strings are decided position by position (one decision
    per candidate start) when the pattern is a fixed-length sequence of byte classes; anything else is reported as unsupported"""

    def __init__(self, pat):
        self._p = pat
        self._cls = _byte_classes(pat.pattern, pat.flags & ~32) if isinstance(pat.pattern, bytes) else None

    def _at(self, data, i):
        conds = []
        for k, cl in enumerate(self._cls):
            e = data.e[i + k]
            if isinstance(e, _real_int):
                if e not in cl:
                    return False
                continue
            t = sym.byte_term(e)
            conds.append(z3.Or(*[t == v for v in sorted(cl)]) if len(cl) <= 128 else z3.Not(z3.Or(*[t == v for v in sorted(set(range(256)) - cl)])) if len(cl) < 256 else z3.BoolVal(True))
        if not conds:
            return True
        return bool(sym.SymBool(z3.And(*conds) if len(conds) > 1 else conds[0]))

    def _scan(self, data, pos, endpos, anchored=False, full=False):
        if not isinstance(data, SymBytes):
            return None
        if self._cls is None:
            raise sym.Unsupported(f"regular expression {self._p.pattern!r} on symbolic bytes")
        n = len(data.e)
        pos = min(max(sym._cidx(pos) or 0, 0), n)
        endpos = n if endpos is None else min(sym._cidx(endpos), n)
        m = len(self._cls)
        for i in range(pos, endpos - m + 1):
            if full and i + m != endpos:
                return False
            if self._at(data, i):
                return MatchShim(data, i, i + m)
            if anchored:
                break
        return False

    def search(self, data, pos=0, endpos=None):
        r = self._scan(data, pos, endpos)
        return self._p.search(data, pos, *(() if endpos is None else (endpos,))) if r is None else (r or None)

    def match(self, data, pos=0, endpos=None):
        r = self._scan(data, pos, endpos, anchored=True)
        return self._p.match(data, pos, *(() if endpos is None else (endpos,))) if r is None else (r or None)

    def fullmatch(self, data, pos=0, endpos=None):
        r = self._scan(data, pos, endpos, anchored=True, full=True)
        return self._p.fullmatch(data, pos, *(() if endpos is None else (endpos,))) if r is None else (r or None)

    def __getattr__(self, name):
        real = getattr(self._p, name)
        if not callable(real):
            return real

        def call(data, *a, **k):
            if isinstance(data, (SymBytes, sym.SymStr)):
                raise sym.Unsupported(f"re.Pattern.{name} on symbolic data")
            return real(data, *a, **k)
        return call


class ReShim:
    """stand-in for the `re` module inside the package: compile() returns a PatternShim; the function forms go through it"""

    def __init__(self):
        import re as _re
        self._re = _re
        self._cache = {}

    def compile(self, pattern, flags=0):
        key = (pattern, int(flags))
        if key not in self._cache:
            self._cache[key] = PatternShim(self._re.compile(pattern, flags))
        return self._cache[key]

    def search(self, pattern, data, flags=0):
        return self.compile(pattern, flags).search(data)

    def match(self, pattern, data, flags=0):
        return self.compile(pattern, flags).match(data)

    def fullmatch(self, pattern, data, flags=0):
        return self.compile(pattern, flags).fullmatch(data)

    def __getattr__(self, name):
        real = getattr(self._re, name)
        if not callable(real) or isinstance(real, type):
            return real

        def call(*a, **k):
            if any(isinstance(x, (SymBytes, sym.SymStr)) for x in a):
                raise sym.Unsupported(f"re.{name} on symbolic data")
            return real(*a, **k)
        return call


# ----------------------------------------------------------------------------------------------
# struct: fixed-width integer formats on symbolic values
# ----------------------------------------------------------------------------------------------

_STRUCT_CODES = {'B': (1, False), 'b': (1, True), 'H': (2, False), 'h': (2, True), 'I': (4, False), 'i': (4, True), 'L': (4, False),
                 'l': (4, True), 'Q': (8, False), 'q': (8, True), 'x': (1, None)}


def _struct_items(fmt):
    """[(size, signed|None), ...], byte order; None when the format is outside the modelled subset"""
    if isinstance(fmt, bytes):
        fmt = fmt.decode()
    order = 'big'
    if fmt[:1] in '<>!=@':
        if fmt[0] in '=@':
            return None, None     # native alignment/sizes are not modelled
        order = 'little' if fmt[0] == '<' else 'big'
        fmt = fmt[1:]
    items, num = [], ''
    for ch in fmt:
        if ch.isdigit():
            num += ch
            continue
        if ch.isspace():
            continue
        if ch not in _STRUCT_CODES:
            return None, None
        items += [_STRUCT_CODES[ch]] * (int(num) if num else 1)
        num = ''
    return items, order


class StructShim:
    """stand-in for struct / struct.pack / struct.unpack inside the package: concrete arguments go to the real module; symbolic ones are
    packed/unpacked for standard-size integer codes with explicit byte order, anything else is reported as unsupported"""

    def __init__(self):
        import struct as _struct
        self._s = _struct
        self.error = _struct.error

    def calcsize(self, fmt):
        return self._s.calcsize(fmt)

    def pack(self, fmt, *vals):
        if not any(isinstance(v, (SymInt, SymBool)) for v in vals):
            return self._s.pack(fmt, *vals)
        items, order = _struct_items(fmt)
        if items is None:
            raise Unsupported(f"struct.pack({fmt!r}) on symbolic values")
        out, vi = [], 0
        for size, signed in items:
            if signed is None:
                out.append(0)
                continue
            v = vals[vi]
            vi += 1
            if isinstance(v, SymInt):
                try:
                    b = v.to_bytes(size, order, signed=bool(signed)) if not signed else None
                except OverflowError:
                    raise self._s.error("argument out of range")
                if b is None:
                    raise Unsupported("struct.pack of a signed symbolic value")
                out += list(b.e)
            else:
                out += list(int(v).to_bytes(size, order, signed=bool(signed)))
        return SymBytes(out)

    def unpack(self, fmt, data):
        if not isinstance(data, SymBytes) or all(isinstance(x, _real_int) for x in data.e):
            return self._s.unpack(fmt, bytes(data.e) if isinstance(data, SymBytes) else data)
        items, order = _struct_items(fmt)
        if items is None:
            raise Unsupported(f"struct.unpack({fmt!r}) on symbolic bytes")
        if sum(sz for sz, _ in items) != len(data.e):
            raise self._s.error("unpack requires a buffer of %d bytes" % sum(sz for sz, _ in items))
        out, pos = [], 0
        for size, signed in items:
            chunk = SymBytes(data.e[pos:pos + size])
            pos += size
            if signed is None:
                continue
            out.append(IntShim.from_bytes(chunk, order, signed=bool(signed)))
        return tuple(out)

    def unpack_from(self, fmt, data, offset=0):
        n = self._s.calcsize(fmt)
        return self.unpack(fmt, data[offset:offset + n])

    def __getattr__(self, name):
        real = getattr(self._s, name)
        if not callable(real) or isinstance(real, type) and name != 'Struct':
            return real

        def call(*a, **k):
            if any(isinstance(x, (SymBytes, SymInt)) for x in a):
                raise Unsupported(f"struct.{name} on symbolic data")
            return real(*a, **k)
        return call


_STATE = {}


def install(ifconv=True, pred=True, merged_nmea=True, crc_ifconv=True):
    """import pyrtcm from the current working tree and install shims + transforms (idempotent)"""
    if _STATE.get('done'):
        return _STATE
    from . import transforms
    import pyrtcm.rtcmmessage as rm
    import pyrtcm.rtcmhelpers as rh
    import pyrtcm.rtcmreader as rr
    import pyrtcm.socketwrapper as sw
    logging.disable(logging.CRITICAL)
    info = {'transforms': {}, 'shims': []}
    for mod in (rm, rr, rh, sw):
        mod.__dict__['int'] = IntShim
    info['shims'].append("int (rtcmmessage, rtcmreader, rtcmhelpers, socketwrapper)")
    rm.__dict__['bin'] = bin_shim
    rm.__dict__['chr'] = chr_shim
    info['shims'] += ["bin (rtcmmessage)", "chr (rtcmmessage)"]
    for name, val in list(vars(rh).items()):     # constant integer tables (e.g. a CRC lookup table): readable with a symbolic index
        if isinstance(val, (list, tuple)) and 16 <= len(val) <= 1024 and all(isinstance(x, _real_int) and not isinstance(x, bool) for x in val):
            rh.__dict__[name] = sym.IntTable(val)
            info['shims'].append(f"{name} (rtcmhelpers): integer table readable with a symbolic index")
    if isinstance(rh.__dict__.get('RTCM_DATA_FIELDS'), dict):
        rh.__dict__['RTCM_DATA_FIELDS'] = StrKeyMap(rh.__dict__['RTCM_DATA_FIELDS'])
        info['shims'].append("RTCM_DATA_FIELDS (rtcmhelpers): symbolic string keys")
    sw.__dict__['memoryview'] = memoryview_shim
    sw.__dict__['bytearray'] = BytearrayShim
    info['shims'] += ["memoryview / bytearray (socketwrapper)"]
    sw.__dict__['bytes'] = bytes_shim
    sw.__dict__['BytesIO'] = SymBytesIO
    info['shims'] += ["bytes (socketwrapper)", "BytesIO (socketwrapper)"]
    if merged_nmea and isinstance(rr.__dict__.get('NMEA_HDR'), list):
        rr.__dict__['NMEA_HDR'] = MergedList(rr.NMEA_HDR)
        info['shims'].append("NMEA_HDR wrapped: one decision per membership test")
    import re as _re
    nre = 0
    for mod in (rm, rr, rh, sw):
        for name, val in list(vars(mod).items()):
            if val is _re:
                mod.__dict__[name] = ReShim()
                nre += 1
            elif isinstance(val, _re.Pattern):
                mod.__dict__[name] = PatternShim(val)
                nre += 1
    import struct as _struct
    nst, sshim = 0, StructShim()
    for mod in (rm, rr, rh, sw):
        for name, val in list(vars(mod).items()):
            if val is _struct:
                mod.__dict__[name] = sshim
                nst += 1
            elif val is _struct.pack:
                mod.__dict__[name] = sshim.pack
                nst += 1
            elif val is _struct.unpack:
                mod.__dict__[name] = sshim.unpack
                nst += 1
            elif val is _struct.unpack_from:
                mod.__dict__[name] = sshim.unpack_from
                nst += 1
    if nst:
        info['shims'].append(f"struct ({nst} bindings): standard-size integer codes with explicit byte order on symbolic values")
    if nre:
        info['shims'].append(f"re / compiled patterns ({nre} bindings): byte-class sequences decided per start position on symbolic bytes")
    orig = {}
    M = rm.RTCMMessage
    orig['RTCMMessage._set_attribute_single'] = M.__dict__.get('_set_attribute_single')
    orig['RTCMMessage._getsatcellmaps'] = M.__dict__.get('_getsatcellmaps')
    orig['calc_crc24q'] = rh.calc_crc24q
    if ifconv and orig['RTCMMessage._set_attribute_single'] is not None:
        new, n = transforms.convert(M._set_attribute_single, pred=False)
        if n:
            M._set_attribute_single = new
        info['transforms']['RTCMMessage._set_attribute_single'] = {'kind': 'if-conversion', 'sites': n}
    if pred and orig['RTCMMessage._getsatcellmaps'] is not None:
        new, n = transforms.convert(M._getsatcellmaps, pred=True)
        if n:
            M._getsatcellmaps = new
        info['transforms']['RTCMMessage._getsatcellmaps'] = {'kind': 'predication', 'sites': n}
    if crc_ifconv:
        new, n = transforms.convert(rh.calc_crc24q, pred=False)
        if n:
            rh.calc_crc24q = new
            if rr.__dict__.get('calc_crc24q') is orig['calc_crc24q']:
                rr.__dict__['calc_crc24q'] = new
        info['transforms']['calc_crc24q'] = {'kind': 'if-conversion', 'sites': n}
    # calls the proxies cannot intercept (literal.join) in the socket wrapper and the name helpers
    nfr = 0
    for cls_, names in ((sw.SocketWrapper, ("dechunk", "_recv", "read", "readline")),):
        for nm in names:
            f = cls_.__dict__.get(nm)
            if f is not None:
                new, n = transforms.friendly(f)
                if n:
                    setattr(cls_, nm, new)
                    nfr += n
    for nm in ("att2idx", "att2name", "datadesc", "_att2parts"):
        f = rh.__dict__.get(nm)
        if callable(f):
            new, n = transforms.friendly(f)
            if n:
                rh.__dict__[nm] = new
                nfr += n
    info['transforms']['literal.join rewrites'] = {'kind': 'proxy-friendly call rewrite', 'sites': nfr}
    # constant lookup tables read with symbolic keys
    info['orig'] = orig
    info['mods'] = {'rm': rm, 'rh': rh, 'rr': rr, 'sw': sw}
    _STATE.update(info)
    _STATE['tracked'] = _track_shared()
    # package/class-level empty bytearrays become mutable symbolic byte buffers, so that in-place growth by symbolic data is modelled
    for i, (owner, k, kind, qual) in enumerate(list(_STATE['tracked'])):
        try:
            v = owner.__dict__[k]
        except KeyError:
            continue
        if isinstance(v, bytearray) and len(v) == 0:
            setattr(owner, k, SymBytes([], mutable=True))
    _STATE['bindings'] = _track_bindings()
    owners = []
    for o in {id(b[0]): b[0] for b in _STATE['bindings']}.values():
        owners.append((o, set(vars(o))))
    _STATE['names'] = owners
    sym.PATH_RESET_HOOKS[:] = [reset_shared]
    _STATE['done'] = True
    return _STATE


SHARED_WRITES = set()     # names of module/class level containers that were written during some path (C13 frame condition)


import copy as _copy


_PLAIN = (int, float, str, bytes, bool, type(None))


def _small_plain(v, depth=0):
    """small containers of plain values (a bookkeeping dict, a counter list): cheap to snapshot and compare on every path"""
    if type(v) in _PLAIN:
        return True
    if depth > 2 or type(v) not in (dict, list, set, tuple) or len(v) > 64:
        return False
    if isinstance(v, dict):
        return all(_small_plain(k, depth + 1) and _small_plain(x, depth + 1) for k, x in v.items())
    return all(_small_plain(x, depth + 1) for x in v)


def _plain_eq(a, b):
    """structural equality that never touches a proxy's __eq__ (a proxy anywhere counts as a difference)"""
    if type(a) is not type(b):
        return False
    if type(a) in _PLAIN:
        return a == b
    if isinstance(a, dict):
        if len(a) != len(b):
            return False
        for (ka, va), (kb, vb) in zip(a.items(), b.items()):
            if not _plain_eq(ka, kb) or not _plain_eq(va, vb):
                return False
        return True
    if isinstance(a, (list, tuple)):
        return len(a) == len(b) and all(_plain_eq(x, y) for x, y in zip(a, b))
    if isinstance(a, set):
        return all(type(x) in _PLAIN for x in a) and a == b
    return False


def _track_shared():
    """module-level / class-level containers that are empty (or None) at import time: the places a cache would live"""
    import sys as _sys
    import types
    tracked = []
    for name, mod in list(_sys.modules.items()):
        if not (name == 'pyrtcm' or name.startswith('pyrtcm.')) or mod is None:
            continue
        for k, v in list(vars(mod).items()):
            if k.startswith('__'):
                continue
            if isinstance(v, (dict, list, set, bytearray)) and len(v) == 0:
                tracked.append((mod, k, 'empty', f"{name}.{k}"))
            elif type(v) in (dict, list, set) and _small_plain(v):
                tracked.append((mod, k, ('snap', _copy.deepcopy(v)), f"{name}.{k}"))
            elif v is None:
                tracked.append((mod, k, 'none', f"{name}.{k}"))
            elif isinstance(v, type) and v.__module__ == name:
                for ck, cv in list(vars(v).items()):
                    if ck.startswith('__'):
                        continue
                    if isinstance(cv, (dict, list, set, bytearray)) and len(cv) == 0:
                        tracked.append((v, ck, 'empty', f"{name}.{v.__name__}.{ck}"))
                    elif type(cv) in (dict, list, set) and _small_plain(cv):
                        tracked.append((v, ck, ('snap', _copy.deepcopy(cv)), f"{name}.{v.__name__}.{ck}"))
                    elif cv is None:
                        tracked.append((v, ck, 'none', f"{name}.{v.__name__}.{ck}"))
    return tracked


def _track_bindings():
    """every module-level and class-level binding of the pyrtcm package (after shims): a path that rebinds one has written shared state"""
    import sys as _sys
    out = []
    skip = {'calc_crc24q', '__pvx'}
    for name, mod in list(_sys.modules.items()):
        if not (name == 'pyrtcm' or name.startswith('pyrtcm.')) or mod is None:
            continue
        for k, v in list(vars(mod).items()):
            if k.startswith('__') or k in skip:
                continue
            out.append((mod, k, v, f"{name}.{k}"))
            if isinstance(v, type) and v.__module__ == name:
                for ck, cv in list(vars(v).items()):
                    if ck.startswith('__') or ck in skip:
                        continue
                    out.append((v, ck, cv, f"{name}.{v.__name__}.{ck}"))
    return out


def reset_shared():
    """called at the start of every explored path: state a previous path left in shared containers must not leak into this one
    (the engine re-executes the code once per path).  Every such write is recorded: it is the C13 'shared state written' flag."""
    for owner, k, kind, qual in _STATE.get('tracked', ()):
        try:
            v = owner.__dict__[k] if isinstance(owner, type) else getattr(owner, k)
        except (KeyError, AttributeError):
            continue
        if kind == 'empty':
            if isinstance(v, (dict, list, set, bytearray, SymBytes)) and len(v) > 0:
                SHARED_WRITES.add(qual)
                v.clear()
        elif isinstance(kind, tuple):
            if not _plain_eq(v, kind[1]):
                SHARED_WRITES.add(qual)
                if type(v) is type(kind[1]):
                    v.clear()
                    (v.update if isinstance(v, (dict, set)) else v.extend)(_copy.deepcopy(kind[1]))
                else:
                    setattr(owner, k, _copy.deepcopy(kind[1]))
        elif v is not None:
            SHARED_WRITES.add(qual)
            setattr(owner, k, None)
    for owner, k, orig, qual in _STATE.get('bindings', ()):
        try:
            cur = owner.__dict__[k]
        except KeyError:
            cur = _MISSING
        if cur is not orig:
            SHARED_WRITES.add(qual)
            setattr(owner, k, orig)
    # bindings that did not exist at import time (a cache created lazily)
    for owner, names in _STATE.get('names', ()):
        for k in list(vars(owner)):
            if k not in names and not k.startswith('__'):
                SHARED_WRITES.add(f"{getattr(owner, '__name__', owner)}.{k} (new)")
                try:
                    delattr(owner, k)
                except (AttributeError, TypeError):
                    pass


_MISSING = object()


def set_crc(fn):
    """route every calc_crc24q call of reader/helpers through fn"""
    st = _STATE
    st['mods']['rr'].__dict__['calc_crc24q'] = fn
    st['mods']['rh'].calc_crc24q = fn


def current_crc():
    return _STATE['mods']['rh'].calc_crc24q
