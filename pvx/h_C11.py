"""C11 — socket reads are independent of how the network segments the data."""
import itertools

import z3

from . import sym, shims, msgdrv, rdrdrv, streams
from .core import JobResult
from .sym import SymBytes, SymInt

META = {
    "level": "model_checking",
    "functions": ["pyrtcm.socketwrapper.SocketWrapper.__init__", "._recv", ".read", ".readline", ".buffer", "pyrtcm.rtcmreader.RTCMReader (over the wrapper)"],
    "transforms": [],
    "shims": ["SymSocket (solver-chosen recv lengths, TimeoutError/OSError injection, close)", "bytes (socketwrapper)", "int"],
    "bounds": {"quick": "bounded histories: streams of n<=6 symbolic bytes, bufsize in {1,2,3,4096}, every segmentation, <=3 read(k) calls with k symbolic in 0..n+1, "
                        "<=1 injected TimeoutError/OSError; one-step from an ARBITRARY buffer state (buffer 0..3 x undelivered 0..3 bytes, free request size, fault before "
                        "every recv) - covers histories of any length; readline over CRLF-terminated and unterminated data; reader over socket == generator list (C02)",
               "thorough": "n<=10, <=5 reads, <=2 faults, buffer/undelivered 0..5"},
    "outside": "real kernel sockets; bufsize values other than listed (passed through unchanged)",
    "assumptions": ["recv contract of the double: 1..bufsize bytes while data remain, b'' once the peer closed, TimeoutError/OSError at any call"],
}
WALL_BUDGET = {"quick": 900, "thorough": 3000}


def jobs(tier, seed):
    out = []
    maxn = 6 if tier == 'quick' else 10
    for n in range(0, maxn + 1):
        for bs in (1, 2, 3, 4096):
            if bs in (1, 2, 3) and n > (5 if tier == 'quick' else 8):
                continue
            out.append(('hist', n, bs, (3 if n <= 5 else 2) if tier == 'quick' else (5 if n <= 6 else 3), 1 if tier == 'quick' or n > 7 else 2))
    mb = 3 if tier == 'quick' else 5
    for B in range(0, mb + 1):
        for R in range(0, mb + 1):
            out.append(('step', B, R, 2))
            if tier != 'quick':
                out.append(('step', B, R, 4096))
    out += [('line', n) for n in range(0, 6 if tier == 'quick' else 9)]
    out += [('reader', seq) for seq in (('R2', 'N', 'R3'), ('N', 'R2'), ('U2', 'R3', 'X1'), ('R3', 'R2'))]
    return out


def case_sock(model, data, sock, calls, why, kind='sockread'):
    return {'kind': kind, 'data': rdrdrv.model_bytes(model, data).hex(), 'recv_log': list(sock.log), 'calls': calls, 'why': why,
            'dedup': why[:60]}


def run_hist(spec, res):
    from pyrtcm.socketwrapper import SocketWrapper
    _, n, bs, nreads, faults = spec
    eng = sym.Engine(max_paths=40000, conc_limit=64)
    eng.time_budget = 240
    H = {}

    def fn():
        data = sym.symbytes("s", n)
        sock = shims.SymSocket(data, maxcuts=n, faults=faults)
        H['data'], H['sock'] = data, sock
        log = []
        try:
            w = SocketWrapper(sock, bufsize=bs)
            for i in range(nreads):
                k = sym.symint(f"k{i}", 4)
                eng.assume(k.t <= n + 1)
                c0, f0, cl0 = sock.ncalls, len(sock.fault_calls), sock.closed_seen
                got = w.read(k)
                kv = eng.unique(k.t)
                log.append((k, kv, got, sock.ncalls - c0, len(sock.fault_calls) - f0, sock.closed_seen, list(w.buffer) if hasattr(w, 'buffer') else None, sock.pos))
            return log
        finally:
            sock.close()
    for path in eng.explore(fn):
        if path.kind == 'abort':
            continue
        res['obligations'] += 1
        data, sock = H['data'], H['sock']
        if path.kind != 'ret':
            res['obligations'] -= 1
            if path.kind == 'exc':
                res['obligations'] += 1
                res['refuted'] += 1
                if eng.check3() == 'sat':
                    res['cex'].append(case_sock(eng.model(), data, sock, [], f"read raised {type(path.value).__name__}: {str(path.value)[:60]}"))
            else:
                res['inconclusive'].append(f"{spec}: {path.kind} {str(path.value)[:80]}")
            continue
        bad = None
        delivered = []
        for (k, kv, got, ncalls, nfaults, closed, buf, pos) in path.value:
            if not isinstance(got, (bytes, bytearray, SymBytes)):
                bad = f"read returned {type(got).__name__}"
                break
            g = list(got)
            if eng.check3(k.t < len(g)) != 'unsat':
                bad = "read returned more than requested"
                break
            short = eng.check3(k.t > len(g)) != 'unsat'
            if short and not (nfaults > 0 or closed):
                bad = "read returned fewer bytes than requested without close or timeout"
                break
            delivered += g
            if not sym.same_bytes(delivered, list(data)[:len(delivered)]):
                bad = "delivered bytes are not a prefix of the stream"
                break
            if buf is not None and not sym.same_bytes(delivered + buf, list(data)[:pos]):
                bad = "delivered + buffered bytes differ from the bytes received so far (data lost or duplicated)"
                break
        if bad:
            res['refuted'] += 1
            if eng.check3() == 'sat':
                m = eng.model()
                calls = [m.eval(k.t, model_completion=True).as_long() for (k, *_r) in path.value]
                res['cex'].append(case_sock(m, data, sock, calls, bad) | {'bufsize': bs})
        else:
            res['discharged'] += 1
            if len(res['witnesses']) < 2 and eng.check3() == 'sat' and path.value:
                m = eng.model()
                calls = [m.eval(k.t, model_completion=True).as_long() for (k, *_r) in path.value]
                res['witnesses'].append(case_sock(m, data, sock, calls, "witness") | {'bufsize': bs})
        res.count('histories')
    res.absorb_engine(eng)


def run_step(spec, res):
    """one read(k) from an arbitrary wrapper state: buffer b (B symbolic bytes), R undelivered source bytes, arbitrary recv behaviour"""
    from pyrtcm.socketwrapper import SocketWrapper
    _, B, R, bs = spec
    eng = sym.Engine(max_paths=20000, conc_limit=64)
    H = {}

    def fn():
        buf = sym.symbytes("b", B)
        src = sym.symbytes("s", R)
        sock = shims.SymSocket(SymBytes([]), maxcuts=0, faults=0)
        try:
            w = SocketWrapper(sock, bufsize=bs)        # initial recv on an empty source: peer-closed path, buffer empty
            sock.d, sock.pos, sock.ncalls, sock.closed_seen, sock.fault_calls, sock.log = src, 0, 0, False, [], []
            sock.cuts_left, sock.faults = R, R + 2
            w._buffer = buf                           # arbitrary pre-state (any history leads to some buffer content)
            k = sym.symint("req", 4)
            eng.assume(k.t <= B + R + 1)
            got = w.read(k)
            H.update(k=k, got=got, post=list(w._buffer), rx=list(src[:sock.pos]), buf=buf, sock=sock, src=src)
            return got
        finally:
            sock.close()
    for path in eng.explore(fn):
        if path.kind == 'abort':
            continue
        res['obligations'] += 1
        if path.kind != 'ret':
            res['obligations'] -= 1
            if path.kind == 'exc':
                res['obligations'] += 1
                res['refuted'] += 1
                res['cex'].append({'kind': 'sockread', 'data': "00" * (B + R), 'recv_log': [['d', B]] if B else [], 'calls': [B + R], 'why': f"read raised {type(path.value).__name__}", 'dedup': 'step-exc'})
            else:
                res['inconclusive'].append(f"{spec}: {path.kind} {str(path.value)[:80]}")
            continue
        got, k, sock = H['got'], H['k'], H['sock']
        g = list(got)
        bad = None
        if eng.check3(k.t < len(g)) != 'unsat':
            bad = "read returned more than requested"
        elif eng.check3(k.t > len(g)) != 'unsat' and not (sock.closed_seen or sock.fault_calls):
            bad = "read returned fewer bytes than requested without close or timeout"
        elif not sym.same_bytes(g + H['post'], list(H['buf']) + H['rx']):
            bad = "result + new buffer differ from old buffer + received bytes (data lost, duplicated or reordered)"
        if bad:
            res['refuted'] += 1
            if eng.check3() == 'sat':
                m = eng.model()
                # replayable history: first deliver the B buffer bytes in one recv and read 0 bytes (buffer now holds them), then the step
                data = rdrdrv.model_bytes(m, H['buf']) + rdrdrv.model_bytes(m, H['src'])
                log = ([['d', B]] if B else [['t']]) + list(sock.log)
                res['cex'].append({'kind': 'sockread', 'data': data.hex(), 'recv_log': log, 'bufsize': max(bs, B, 1), 'calls': [m.eval(k.t, model_completion=True).as_long()],
                                   'why': bad, 'dedup': f"step:{bad[:40]}"})
        else:
            res['discharged'] += 1
        res.count('steps')
    res.absorb_engine(eng)


def run_line(spec, res):
    """readline(): returns up to and including the first CRLF, or everything when the peer closes first; nothing lost for following reads"""
    from pyrtcm.socketwrapper import SocketWrapper
    _, n = spec
    eng = sym.Engine(max_paths=20000, conc_limit=64)
    eng.time_budget = 200
    H = {}

    def fn():
        data = sym.symbytes("s", n)
        sock = shims.SymSocket(data, maxcuts=n, faults=0)
        H['data'], H['sock'] = data, sock
        try:
            w = SocketWrapper(sock, bufsize=4096)
            line = w.readline()
            rest = w.read(n + 1) if False else None
            return line, list(w.buffer), sock.pos
        finally:
            sock.close()
    for path in eng.explore(fn):
        if path.kind == 'abort':
            continue
        res['obligations'] += 1
        if path.kind != 'ret':
            res['obligations'] -= 1
            res['inconclusive' if path.kind != 'exc' else 'harness_errors'].append(f"{spec}: {path.kind} {str(path.value)[:80]}")
            continue
        line, buf, pos = path.value
        data = H['data']
        L = list(line)
        bad = None
        if not sym.same_bytes(L, list(data)[:len(L)]):
            bad = "line is not a prefix of the stream"
        elif not sym.same_bytes(L + buf, list(data)[:pos]):
            bad = "line + buffer differ from the bytes received"
        else:
            # terminator: either ends with CRLF (and no earlier CRLF inside), or the stream ended
            d = [sym.byte_term(x) for x in L]
            ends = z3.And(d[-2] == 13, d[-1] == 10) if len(d) >= 2 else z3.BoolVal(False)
            earlier = z3.Or(*[z3.And(d[i] == 13, d[i + 1] == 10) for i in range(len(d) - 2)]) if len(d) > 2 else z3.BoolVal(False)
            if eng.check3(earlier) != 'unsat':
                bad = "line continues past a CRLF"
            elif len(L) < n and eng.check3(z3.Not(ends)) != 'unsat' and not H['sock'].closed_seen:
                bad = "line ends without CRLF although the peer has not closed"
        if bad:
            res['refuted'] += 1
            if eng.check3() == 'sat':
                res['cex'].append(case_sock(eng.model(), data, H['sock'], ['line'], bad))
        else:
            res['discharged'] += 1
        res.count('lines')
    res.absorb_engine(eng)


def run_reader(spec, res):
    from . import h_C02
    _, seq = spec
    h_C02.run_seq(seq, 1, res, via='sock', maxcuts=2, bufsize=4096)
    h_C02.run_seq(seq, 1, res, via='sock', maxcuts=0, bufsize=1)
    h_C02.run_seq(seq, 1, res, via='sock', maxcuts=0, bufsize=3)


def run_job(spec):
    shims.install()
    res = JobResult(str(spec))
    {'hist': run_hist, 'step': run_step, 'line': run_line, 'reader': run_reader}[spec[0]](spec, res)
    res['samples'].append({'job': [str(x) for x in spec], 'paths': res['paths']})
    return res


def vacuity(tier, results, counters):
    errs = []
    if counters.get('histories', 0) < 500:
        errs.append(f"only {counters.get('histories', 0)} read histories")
    if counters.get('steps', 0) < 100:
        errs.append(f"only {counters.get('steps', 0)} one-step paths")
    return errs
