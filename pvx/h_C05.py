"""C05 — a damaged frame costs exactly that frame; error modes differ only in reporting.
Decomposition: "damage of a guaranteed-detectable class => CRC register != 0" is C08 (lemmas on the real step).  Here the reader's
control logic is decided: a frame whose (recorded, real) CRC result is non-zero costs exactly that frame."""
import itertools

import z3

from . import sym, shims, msgdrv, rdrdrv, streams
from .core import JobResult

META = {
    "level": "model_checking",
    "functions": ["pyrtcm.rtcmreader.RTCMReader.read/__next__/_parse_rtcm3/_read_bytes/_do_error/parse", "calc_crc24q (fold summary / direct)"],
    "transforms": ["if-conversion (calc_crc24q, _set_attribute_single)"],
    "shims": ["SymStream", "CRC policy: recorded CRC result of each generated frame assumed 0 (good) or != 0 (damaged)", "counting error handler"],
    "bounds": {
        "quick": "streams of 2 and 3 frames (payload 2/3/19 bytes, payload and CRC bytes symbolic) optionally separated by an NMEA sentence or noise, incl. verbatim re-broadcasts of a frame with other checksum bytes, every subset "
                 "of damaged frames, modes 0/1/2, with user handler and with the logger path; 8-byte frames with explicit 1-3 bit / burst<=24 error "
                 "patterns through the real if-converted CRC (direct, no decomposition)",
        "thorough": "4 frames, all interleavings with foreign items"},
    "outside": "damage inside the 3 header bytes (excluded by the property); more frames than the bound; that each damage class yields a non-zero CRC (C08)",
    "assumptions": ["'damaged' ranges over every payload/CRC content the CRC rejects: a superset of the property's damage classes"],
}
WALL_BUDGET = {"quick": 900, "thorough": 3000}


def jobs(tier, seed):
    out = []
    shapes = [('R2', 'R3'), ('R3', 'R2', 'R19'), ('R2', 'N', 'R3'), ('R19', 'X1', 'R2'), ('R2', 'R2', 'R2'), ('R3', 'S', 'R2'), ('R19', 'S', 'S'), ('R3', 'T', 'R2'), ('R2', 'R19', 'T')]
    if tier != 'quick':
        shapes += [('R2', 'R3', 'R2', 'R3'), ('R2', 'U2', 'R3', 'N', 'R2'), ('R19', 'R19', 'R2')]
    for sh in [('R2', 'D5', 'R3'), ('D5', 'R2'), ('R19', 'D5')]:
        # damaged content that cannot be decoded (the damage hit the message number / a counter): still a CRC failure, same reporting
        dmg = tuple(i for i, k in enumerate(sh) if k == 'D5')
        for mode in (0, 1, 2):
            out.append(('seq', sh, dmg, mode, True))
    for sh in shapes:
        nf = len([k for k in sh if k.startswith('R') or k in ('S', 'T')])
        twins = [i for i, k in enumerate([k for k in sh if k.startswith('R') or k in ('S', 'T')]) if k == 'T']
        for dmg in itertools.chain.from_iterable(itertools.combinations(range(nf), r) for r in range(nf + 1)):
            if any((t in dmg) != ((t - 1) in dmg) for t in twins):
                continue      # a byte-identical copy is damaged exactly when the original is
            for mode in (0, 1, 2):
                out.append(('seq', sh, dmg, mode, True))
            out.append(('seq', sh, dmg, 1, False))
    for cls in ('bit1', 'bit2', 'bit3', 'burst'):
        out.append(('direct', cls))
    return out


def run_seq(spec, res):
    _, seq, dmg, mode, use_handler = spec
    eng = sym.Engine(max_paths=200, conc_limit=8)
    H = {}

    def fn():
        data, items = streams.build(eng, seq)
        H['data'], H['items'] = data, items
        pol = streams.CrcPolicy(eng, items, damaged=set(dmg))
        st = shims.SymStream(data)
        H['pol'] = pol
        return rdrdrv.iterate(st, mode=mode, use_handler=use_handler, max_calls=3 * len(data) + 8, crc_hook=pol)
    n = 0
    for path in eng.explore(fn):
        if path.kind == 'abort':
            continue
        if path.kind != 'ret':
            res['inconclusive'].append(f"{spec}: {path.kind} {str(path.value)[:80]}")
            continue
        n += 1
        run = path.value
        frames = [it for it in H['items'] if it.frame]
        good = [it for i, it in enumerate(frames) if i not in dmg]
        bad = []
        got = [raw for raw, _ in run.pairs()]
        if run.end != 'stop':
            bad.append(f"iteration ended with {run.end!r}")
        if len(got) != len(good) or not all(sym.same_bytes(list(g), it.elems) for g, it in zip(got, good)):
            bad.append(f"returned {len(got)} frames, {len(good)} undamaged frames generated (or content/order differs)")
        excs = [e[1] for e in run.events if e[0] == 'exc']
        if mode == 2:
            from pyrtcm.exceptions import RTCMParseError
            if len(excs) != len(dmg) or not all(type(e) is RTCMParseError for e in excs):
                bad.append(f"raise mode: {[type(e).__name__ for e in excs]} raised for {len(dmg)} damaged frames")
            # order: every earlier good frame returned before the exception of a damaged one
            want = ['exc' if i in dmg else 'pair' for i in range(len(frames))]
            if [e[0] for e in run.events] != want:
                bad.append(f"raise mode event order {[e[0] for e in run.events]} expected {want}")
        else:
            if excs:
                bad.append(f"mode {mode}: exception {type(excs[0]).__name__} left the iterator")
        if use_handler:
            wanth = len(dmg) if mode == 1 else 0
            if len(run.handler.calls) != wanth:
                bad.append(f"mode {mode}: error handler called {len(run.handler.calls)} times for {len(dmg)} damaged frames")
        res['obligations'] += 1
        if bad:
            res['refuted'] += 1
            emit(eng, H, run, spec, res, "; ".join(bad))
        else:
            res['discharged'] += 1
            if n == 1 and eng.check3() == 'sat' and len(res['witnesses']) < 1:
                res['witnesses'].append(case_of(eng.model(), H, spec, "witness"))
    if n == 0:
        res['harness_errors'].append(f"{spec}: no feasible path")
    res.absorb_engine(eng)
    res.count('streams')


def case_of(model, H, spec, why):
    from . import concrete
    _, seq, dmg, mode, use_handler = spec
    raw = bytearray(rdrdrv.model_bytes(model, H['data']))
    frames = [it for it in H['items'] if it.frame]
    exp = []
    for i, it in enumerate(frames):
        body = bytes(raw[it.start:it.end - 3])
        good = concrete.crc24q_ref(body).to_bytes(3, "big")
        if i in dmg:
            if bytes(raw[it.end - 3:it.end]) == good:
                raw[it.end - 2] ^= 0x10
        else:
            raw[it.end - 3:it.end] = good
            exp.append(bytes(raw[it.start:it.end]).hex())
    return {'kind': 'stream', 'data': bytes(raw).hex(), 'mode': mode, 'handler': use_handler,
            'checks': ['frames', 'c04'] + (['handler'] if use_handler else []) + (['errors'] if mode == 2 else []),
            'expect_frames': exp, 'min_payload': 0, 'expect_handler': len(dmg) if mode == 1 else 0, 'expect_errors': len(dmg),
            'error_type': 'RTCMParseError', 'why': why, 'dedup': f"{seq}:{dmg}:{mode}:{use_handler}:{why[:30]}"}


def emit(eng, H, run, spec, res, why):
    if eng.check3() == 'sat':
        res['cex'].append(case_of(eng.model(), H, spec, why))
    else:
        res['harness_errors'].append(f"{spec}: no model for {why}")


def run_direct(spec, res):
    """8-byte frames f (payload 2 bytes, unknown type) with crc(f)=0 through the real if-converted CRC, damaged by an explicit error pattern
    e of the class behind the header: the reader must not return f^e and must report one error"""
    _, cls = spec
    from . import concrete
    for mode in (1, 2):
        eng = sym.Engine(max_paths=50, conc_limit=8)
        eng.query_timeout_ms = 120000
        H = {}

        def fn():
            pay = sym.symbytes("p", 2)
            crc = sym.symbytes("c", 3)
            eng.assume(msgdrv.fterm(pay.term(), 16, 0, 12) == 4072)
            f = [0xD3, 0, 2] + pay.e + crc.e
            base = rdrdrv.base_crc()
            r0 = base(sym.SymBytes(f))
            eng.assume(r0.t == 0)                       # f is a valid frame w.r.t. the real CRC
            e = z3.BitVec("e", 40)
            eb = [z3.Extract(39 - 8 * i, 32 - 8 * i, e) for i in range(5)]
            eng.assume(e != 0)
            pc = sym.popcount(sym.SymInt(z3.ZeroExt(1, e))).t
            if cls.startswith('bit'):
                eng.assume(pc == int(cls[3]))
            else:
                lo = e & -e
                eng.assume(z3.Or(z3.Extract(39, 16, lo) != 0, z3.ULT(e, lo << 24)))   # set bits span <= 24
            g = [0xD3, 0, 2] + [sym.SymInt(z3.ZeroExt(1, sym.byte_term(x) ^ b)) for x, b in zip(pay.e + crc.e, eb)]
            data = sym.SymBytes(g)
            H['data'], H['e'], H['f'] = data, e, f
            st = shims.SymStream(data)
            return rdrdrv.iterate(st, mode=mode, max_calls=40, crc_inner='direct')
        for path in eng.explore(fn):
            if path.kind == 'abort':
                continue
            if path.kind == 'unknown':
                # the end-to-end form without the decomposition is a confirmation, not the deciding argument (that is C08's lemma chain +
                # the reader logic above); an XOR-heavy query the solver gives up on is recorded, not counted
                res['notes'].append(f"direct {cls} mode {mode}: solver gave up ({str(path.value)[:40]}); not counted")
                eng.unknowns = 0
                continue
            if path.kind != 'ret':
                res['inconclusive'].append(f"{spec}: {path.kind} {str(path.value)[:80]}")
                continue
            run = path.value
            res['obligations'] += 1
            bad = []
            if run.pairs():
                bad.append("damaged frame returned")
            nerr = len(run.handler.calls) if mode == 1 else len([e for e in run.events if e[0] == 'exc'])
            if nerr != 1:
                bad.append(f"{nerr} errors reported for one damaged frame")
            if bad:
                res['refuted'] += 1
                if eng.check3() == 'sat':
                    m = eng.model()
                    res['cex'].append({'kind': 'stream', 'data': rdrdrv.model_bytes(m, H['data']).hex(), 'mode': mode,
                                       'checks': ['frames', 'handler' if mode == 1 else 'errors'], 'expect_frames': [], 'min_payload': 0,
                                       'expect_handler': 1, 'expect_errors': 1, 'why': "; ".join(bad), 'dedup': f"direct:{cls}:{mode}"})
            else:
                res['discharged'] += 1
                if eng.check3() == 'sat' and len(res['witnesses']) < 2:
                    m = eng.model()
                    res['witnesses'].append({'kind': 'stream', 'data': rdrdrv.model_bytes(m, H['data']).hex(), 'mode': mode,
                                             'checks': ['frames', 'handler' if mode == 1 else 'errors'], 'expect_frames': [], 'min_payload': 0,
                                             'expect_handler': 1, 'expect_errors': 1})
        res.absorb_engine(eng)
    res.count('direct')


def run_job(spec):
    shims.install()
    res = JobResult(str(spec)[:70])
    if spec[0] == 'seq':
        run_seq(spec, res)
    else:
        run_direct(spec, res)
    if not res['samples']:
        res['samples'].append({'job': [str(x) for x in spec], 'paths': res['paths']})
    return res


def vacuity(tier, results, counters):
    if counters.get('streams', 0) < 50:
        return [f"only {counters.get('streams', 0)} streams explored"]
    return []
