"""C07 — serialize and parse are mutual inverses and framing is canonical."""
import z3

from . import sym, shims, msgdrv, rdrdrv, structs, oracle_layout as ol
from .core import JobResult
from .sym import SymBytes, SymInt

META = {
    "level": "model_checking",
    "functions": ["pyrtcm.rtcmmessage.RTCMMessage.serialize", ".__repr__", ".payload", "pyrtcm.rtcmhelpers.len2bytes", "crc2bytes", "calc_crc24q",
                  "pyrtcm.rtcmreader.RTCMReader.parse"],
    "transforms": ["if-conversion (calc_crc24q, _set_attribute_single)", "fold summary of calc_crc24q for long frames (cross-checked against the direct term for short ones)"],
    "shims": ["int", "bin", "chr"],
    "bounds": {"quick": "payload lengths {2..8, 255, 256, 511, 512, 1023} for unknown types (all payload bits symbolic); every defined identity once in directed mode "
                        "(counts 1) padded to L in {needed, 300, 600}; parse->serialize on symbolic valid frames of the same lengths; messages obtained by parse() from "
                        "frames with free reserved header bits (CRC valid) or a free trailer (validate=0), payloads 2,3,5,8,19 bytes: serialize() canonical",
               "thorough": "plus lengths {9..40, 767, 768, 1022}; every defined identity at three structures"},
    "outside": "payload lengths not listed (the code paths do not branch on the length besides the two length bytes); eval() of a bytes literal is CPython's guarantee "
               "(executed on the concrete witness of each structure)",
    "assumptions": ["CRC equalities use the fold summary: same summary variable on both sides; lemma Z / Z' of C08 (appended CRC zeroes the register, uniquely)"],
}
WALL_BUDGET = {"quick": 900, "thorough": 3000}


def jobs(tier, seed):
    lens = [2, 3, 4, 5, 6, 7, 8, 255, 256, 511, 512, 1023]
    if tier != 'quick':
        lens += list(range(9, 41)) + [767, 768, 1022]
    out = [('unknown', L) for L in lens]
    ids = [i for i in structs.all_identities() if structs.wellformed(i)]
    per = 8
    for i in range(0, len(ids), per):
        out.append(('defined', ids[i:i + per], tier))
    out += [('p2s', L) for L in lens]
    out.append(('repr',))
    out += [('hist', 0), ('hist', 1)]
    out += [('dirty', L, v) for L in (2, 3, 5, 8, 19) for v in (0, 1)]
    return out


def crc_term_of(prefix, summ):
    """CRC of prefix bytes as the code itself computes it (through the shared summary)"""
    return summ(SymBytes(list(prefix)))


def check_roundtrip(eng, p, L, res, mk, label, directed=None):
    """m = RTCMMessage(p); f = m.serialize(); canonical framing; m2 = parse(f) same payload/identity/attributes"""
    from pyrtcm.rtcmmessage import RTCMMessage
    from pyrtcm.rtcmreader import RTCMReader


def run_rt(name, L, build, res, identity_of=None):
    """build(eng) -> payload SymBytes with assumptions asserted"""
    from pyrtcm.rtcmmessage import RTCMMessage
    from pyrtcm.rtcmreader import RTCMReader
    eng = sym.Engine(max_paths=16, conc_limit=8)
    eng.query_timeout_ms = 120000
    H = {}

    def fn():
        summ = rdrdrv.CrcSummary()
        rec = rdrdrv.CrcRecorder(summ)
        shims.set_crc(rec)
        try:
            p = build(eng)
            H['p'] = p
            m = RTCMMessage(payload=p)
            f = m.serialize()
            m2 = RTCMReader.parse(f)
            f2 = m2.serialize()
            return m, f, m2, f2, rec
        finally:
            shims.set_crc(summ.direct)
    okp = 0
    for path in eng.explore(fn):
        if path.kind == 'abort':
            continue
        p = H.get('p')
        n = len(p) if p is not None else 0

        def mkcase(why):
            if eng.check3() == 'sat':
                pl = bytes(eng.model().eval(sym.byte_term(e), model_completion=True).as_long() for e in p.e)
                res['cex'].append({'kind': 'roundtrip', 'payload': pl.hex(), 'why': why, 'dedup': f"{name}:{why[:40]}"})
            else:
                res['harness_errors'].append(f"{name}: no model for {why}")
        res['obligations'] += 1
        if path.kind == 'exc':
            res['refuted'] += 1
            mkcase(f"{type(path.value).__name__}: {str(path.value)[:80]}")
            continue
        if path.kind != 'ret':
            res['obligations'] -= 1
            res['inconclusive'].append(f"{name}: {path.kind} {str(path.value)[:80]}")
            continue
        m, f, m2, f2, rec = path.value
        bad = []
        if not isinstance(f, (SymBytes, bytes)) or len(f) != n + 6:
            bad.append(f"serialize() gives {len(f) if hasattr(f, '__len__') else type(f).__name__} bytes for a {n}-byte payload")
        else:
            hdr = list(f[:3])
            exp_hdr = [0xD3, n >> 8, n & 0xFF]
            for i, (h, e) in enumerate(zip(hdr, exp_hdr)):
                if isinstance(h, int):
                    if h != e:
                        bad.append(f"header byte {i} is {h:#x}, canonical is {e:#x}")
                elif eng.forced(sym.byte_term(h) == e) is not True:
                    bad.append(f"header byte {i} is not forced to {e:#x}")
            if not sym.same_bytes(list(f[3:3 + n]), list(p)):
                bad.append("payload bytes of the frame differ from the message payload")
            # trailer = big-endian CRC the code computes over header + payload: find the recorded call on exactly f[:-3]
            calls = [r for a, r in rec.calls if len(a) == n + 3 and sym.same_bytes(list(a), list(f[:n + 3]))]
            if not calls:
                bad.append("no CRC was computed over header+payload")
            else:
                c = calls[0]
                ct = c.t if isinstance(c, SymInt) else z3.BitVecVal(c, 26)
                tr = SymBytes(list(f[n + 3:])).term()
                if eng.forced(z3.ZeroExt(3, tr) == sym.sx(ct, 27)) is not True:
                    bad.append("trailer is not the big-endian CRC of header+payload")
            if not sym.same_bytes(list(m2.payload), list(p)):
                bad.append("parse(serialize(m)).payload differs")
            if m2.identity != m.identity:
                bad.append("parse(serialize(m)).identity differs")
            a, b = msgdrv.public_attrs(m), msgdrv.public_attrs(m2)
            if list(a) != list(b) or not all(same(a[k], b[k]) for k in a):
                bad.append("attribute values differ after the round trip")
            if not sym.same_bytes(list(f2), list(f)):
                # CRC bytes may be different term objects: compare semantically
                if len(f2) != len(f) or not sym.same_bytes(list(f2[:n + 3]), list(f[:n + 3])) or \
                        eng.forced(SymBytes(list(f2[n + 3:])).term() == SymBytes(list(f[n + 3:])).term()) is not True:
                    bad.append("serialising the re-parsed message gives a different frame")
        rp = repr(m)
        if rp != "RTCMMessage(payload=" + repr(p) + ")":
            bad.append(f"repr() is {rp[:60]!r}")
        if bad:
            res['refuted'] += 1
            mkcase("; ".join(bad[:3]))
        else:
            res['discharged'] += 1
            okp += 1
            if okp == 1 and eng.check3() == 'sat' and len(res['witnesses']) < 4:
                pl = bytes(eng.model().eval(sym.byte_term(e), model_completion=True).as_long() for e in p.e)
                res['witnesses'].append({'kind': 'roundtrip', 'payload': pl.hex()})
        res.count('roundtrips')
    if okp == 0:
        res.count('no_success_path')
    res.absorb_engine(eng)


def same(a, b):
    ta, tb_ = sym.term_of(a), sym.term_of(b)
    if ta or tb_:
        if isinstance(a, sym.SymScaled) and (not isinstance(b, sym.SymScaled) or a.f != b.f):
            return False
        return type(a) is type(b) and len(ta) == len(tb_) and all(x.eq(y) for x, y in zip(ta, tb_))
    return type(a) is type(b) and a == b


def filler_payload(eng, name, L, head=10, tail=4):
    """payload of L bytes: symbolic head and tail, concrete inert filler in between (keeps terms small at 1023 bytes)"""
    if L <= head + tail + 4:
        return sym.symbytes(name, L)
    h = sym.symbytes(name, head)
    t = sym.symbytes(name + "t", tail)
    return SymBytes(h.e + [(0x41 + i % 23) for i in range(L - head - tail)] + t.e)


def run_unknown(L, res):
    for num in (4072, 1070, 999, 0xD30):     # 0xD30: the payload itself starts with the frame preamble byte
        def build(eng, num=num):
            p = filler_payload(eng, "p", L)
            eng.assume(msgdrv.fterm(SymBytes(p.e[:2]).term(), 16, 0, 12) == num)
            return p
        run_rt(f"unknown{num}:L{L}", L, build, res)


def run_defined(ids, tier, res):
    for ident in ids:
        k = structs.kind_of(ident)
        sts = [dict(nsat=1, nsig=1, cellmask='ones', maskmode='value', seed=3)] if k == 'msm' else [dict(harm=(0, 1, 1))] if k == 'harm' else \
            [dict(flags=6)] if k == 'flags' else [dict(mode=('uniform', 1))]
        if tier != 'quick':
            sts += [dict(nsat=2, nsig=2, cellmask=5, maskmode='value', seed=4)] if k == 'msm' else [dict(mode=('uniform', 2))] if k == 'plain' else []
        for st in sts:
            d0 = msgdrv.Directed(ident, structs.chooser(st), spare=0)
            for L in sorted({d0.need, 300, 600} if tier == 'quick' else {d0.need, d0.need + 1, 300, 600, 1023}):
                if L < d0.need:
                    continue
                d = msgdrv.Directed(ident, structs.chooser(st), length=L)

                def build(eng, d=d, L=L):
                    if L > d.need + 8:
                        # long padding: concrete filler behind the needed bytes (bytes after the last field change nothing: C03)
                        p = d.build(eng)
                        pad = SymBytes(p.e[:d.need + 2] + [0x20] * (L - d.need - 4) + p.e[-2:])
                        d.p = pad
                        return pad
                    return d.build(eng)
                run_rt(f"{ident}:L{L}", L, build, res)


def run_p2s(L, res):
    """for a symbolic VALID frame f (CRC bytes free, the code's CRC over f assumed 0): parse(f).serialize() == f, trailer by lemma Z'"""
    from pyrtcm.rtcmreader import RTCMReader
    eng = sym.Engine(max_paths=16, conc_limit=8)
    eng.query_timeout_ms = 120000
    H = {}

    def fn():
        summ = rdrdrv.CrcSummary()

        def hook(arg, r):
            if not isinstance(r, int) and 'f' in H and len(arg) == len(H['f']) and sym.same_bytes(list(arg), list(H['f'])):
                eng.assume(r.t == 0)
        rec = rdrdrv.CrcRecorder(summ, hook)
        shims.set_crc(rec)
        try:
            p = filler_payload(eng, "p", L)
            eng.assume(msgdrv.fterm(SymBytes(p.e[:2]).term(), 16, 0, 12) == 4072)
            c = sym.symbytes("c", 3)
            f = SymBytes([0xD3, L >> 8, L & 0xFF] + p.e + c.e)
            H['f'] = f
            m = RTCMReader.parse(f)
            return f, m.serialize()
        finally:
            shims.set_crc(summ.direct)
    for path in eng.explore(fn):
        if path.kind == 'abort':
            continue
        res['obligations'] += 1
        if path.kind != 'ret':
            res['obligations'] -= 1
            res['inconclusive' if path.kind != 'exc' else 'harness_errors'].append(f"p2s L={L}: {path.kind} {str(path.value)[:80]}")
            continue
        f, g = path.value
        n = L
        ok = len(g) == len(f) and sym.same_bytes(list(g[:n + 3]), list(f[:n + 3]))
        if ok:
            ok = eng.forced(SymBytes(list(g[n + 3:])).term() == SymBytes(list(f[n + 3:])).term()) is True
        if ok:
            res['discharged'] += 1
        else:
            res['refuted'] += 1
            if eng.check3() == 'sat':
                m = eng.model()
                pl = rdrdrv.model_bytes(m, SymBytes(list(f[3:3 + n])))
                res['cex'].append({'kind': 'roundtrip', 'payload': pl.hex(), 'why': "parse(frame).serialize() differs from the frame", 'dedup': f"p2s:{L}"})
        res.count('p2s')
    res.absorb_engine(eng)


def run_dirty(L, validate, res):
    """the message is obtained through parse() from a frame that need not be canonical: header bits free (validate=1: the code's CRC over the
    frame assumed 0) or trailer free (validate=0).  Whatever parse() accepted, serialize() must be the canonical frame of the message's payload."""
    from pyrtcm.rtcmreader import RTCMReader
    eng = sym.Engine(max_paths=32, conc_limit=8)
    eng.query_timeout_ms = 120000
    H = {}

    def fn():
        summ = rdrdrv.CrcSummary()

        def hook(arg, r):
            if validate and not isinstance(r, int) and 'f' in H and len(arg) == len(H['f']) and sym.same_bytes(list(arg), list(H['f'])):
                eng.assume(r.t == 0)
        rec = rdrdrv.CrcRecorder(summ, hook)
        shims.set_crc(rec)
        try:
            p = sym.symbytes("p", L)
            eng.assume(msgdrv.fterm(SymBytes(p.e[:2]).term(), 16, 0, 12) == 4072)
            c = sym.symbytes("c", 3)
            h = sym.symbytes("h", 1)
            # reserved header bits free; the 10-bit length stays the real one (a wrong length is C01/C08 matter)
            eng.assume(sym.byte_term(h.e[0]) & 3 == L >> 8)
            f = SymBytes([0xD3, h.e[0], L & 0xFF] + p.e + c.e)
            H.update(f=f, p=p, rec=rec)
            m = RTCMReader.parse(f, validate=validate)
            return m, m.serialize()
        finally:
            shims.set_crc(summ.direct)
    for path in eng.explore(fn):
        if path.kind in ('abort', 'exc'):
            continue          # rejecting the frame is allowed here
        if path.kind != 'ret':
            res['inconclusive'].append(f"dirty L={L}: {path.kind} {str(path.value)[:80]}")
            continue
        res['obligations'] += 1
        m, g = path.value
        f, p, rec = H['f'], H['p'], H['rec']
        bad = []
        if not sym.same_bytes(list(m.payload), list(p)):
            bad.append("parsed payload is not the frame minus header and trailer")
        if not isinstance(g, (SymBytes, bytes)) or len(g) != L + 6:
            bad.append("serialize() has the wrong length")
        else:
            for i, e in enumerate([0xD3, L >> 8, L & 0xFF]):
                x = g[i]
                if (x != e) if isinstance(x, int) else (eng.forced(sym.byte_term(x) == e) is not True):
                    bad.append(f"header byte {i} of serialize() is not canonical")
            if not sym.same_bytes(list(g[3:3 + L]), list(p)):
                bad.append("payload bytes of serialize() differ")
            calls = [r for a, r in rec.calls if len(a) == L + 3 and sym.same_bytes(list(a), list(g[:L + 3]))]
            if not calls:
                bad.append("no CRC was computed over the canonical header+payload")
            else:
                ct = calls[0].t if isinstance(calls[0], SymInt) else z3.BitVecVal(calls[0], 26)
                if eng.forced(z3.ZeroExt(3, SymBytes(list(g[L + 3:])).term()) == sym.sx(ct, 27)) is not True:
                    bad.append("trailer of serialize() is not the CRC of the canonical header+payload")
        if bad:
            res['refuted'] += 1
            # prefer a model in which the frame is visibly non-canonical
            pref = z3.Or(sym.byte_term(f.e[1]) != (L >> 8), SymBytes(list(f[L + 3:])).term() != 0)
            r = eng.check3(pref)
            if r != 'sat':
                r = eng.check3()
            if r == 'sat':
                fr = rdrdrv.model_bytes(eng.model(), f)
                res['cex'].append({'kind': 'roundtrip', 'payload': fr[3:-3].hex(), 'frame': fr.hex(), 'validate': validate, 'fixcrc': bool(validate),
                                   'why': "; ".join(bad[:3]), 'dedup': f"dirty:{L}:{validate}:{bad[0][:30]}"})
        else:
            res['discharged'] += 1
            if not res['witnesses'] and eng.check3(sym.byte_term(f.e[1]) != (L >> 8)) == 'sat':
                fr = rdrdrv.model_bytes(eng.model(), f)
                res['witnesses'].append({'kind': 'roundtrip', 'payload': fr[3:-3].hex(), 'frame': fr.hex(), 'validate': validate, 'fixcrc': bool(validate)})
        res.count('dirty')
    res.absorb_engine(eng)


def run_hist(validate, res):
    """two different frames of equal length that share their three trailer bytes, parsed one after the other: the second result must be
    the second frame's message (a result remembered by length/trailer would return the first)"""
    from pyrtcm.rtcmreader import RTCMReader
    for L in (4, 19):
        eng = sym.Engine(max_paths=64, conc_limit=3)
        eng.time_budget = 60
        H = {}

        def fn():
            summ = rdrdrv.CrcSummary()

            def hook(arg, r):
                if not isinstance(r, int):
                    eng.assume(r.t == 0)
            rec = rdrdrv.CrcRecorder(summ, hook)
            shims.set_crc(rec)
            try:
                num = 4072 if L == 4 else 1005
                p, q, c = sym.symbytes("p", L), sym.symbytes("q", L), sym.symbytes("c", 3)
                for x in (p, q):
                    eng.assume(msgdrv.fterm(x.term(), 8 * L, 0, 12) == num)
                hdr = [0xD3, 0, L]
                H.update(p=p, q=q, c=c)
                m1 = RTCMReader.parse(SymBytes(hdr + p.e + c.e), validate=validate)
                m2 = RTCMReader.parse(SymBytes(hdr + q.e + c.e), validate=validate)
                return m1, m2
            finally:
                shims.set_crc(summ.direct)
        for path in eng.explore(fn):
            if path.kind == 'abort':
                continue
            res['obligations'] += 1
            if path.kind != 'ret':
                res['obligations'] -= 1
                res['inconclusive' if path.kind != 'exc' else 'notes'].append(f"hist: {path.kind} {str(path.value)[:80]}")
                continue
            m1, m2 = path.value
            if sym.same_bytes(list(m2.payload), list(H['q'])) and sym.same_bytes(list(m1.payload), list(H['p'])):
                res['discharged'] += 1
            else:
                res['refuted'] += 1
                if eng.check3(H['p'].term() != H['q'].term()) == 'sat':
                    m = eng.model()
                    hdr = bytes([0xD3, 0, L])
                    cc = rdrdrv.model_bytes(m, H['c'])
                    res['cex'].append({'kind': 'parseseq', 'frames': [(hdr + rdrdrv.model_bytes(m, H[k]) + cc).hex() for k in ('p', 'q')], 'validate': 0,
                                       'why': "the second of two frames with equal length and trailer is parsed as the first", 'dedup': f"hist:{L}"})
            res.count('roundtrips')
        res.absorb_engine(eng)
    res['trunc'] = [t for t in res['trunc'] if t and t[0] != 'conc_limit']


def run_job(spec):
    shims.install()
    res = JobResult(str(spec)[:60])
    if spec[0] == 'unknown':
        run_unknown(spec[1], res)
    elif spec[0] == 'defined':
        run_defined(spec[1], spec[2], res)
    elif spec[0] == 'p2s':
        run_p2s(spec[1], res)
    elif spec[0] == 'hist':
        run_hist(spec[1], res)
    elif spec[0] == 'dirty':
        run_dirty(spec[1], spec[2], res)
    else:
        # repr / eval round trip on concrete witnesses of odd payloads (quotes, backslashes, NUL, high bytes): replayed on the real code
        for pl in (b"\xfe\x80'\"\\\x00\xff\n", bytes(range(256))[62:120], b">\xf4\xd2\x03ABC\xea", b"\xfe\x80" + bytes(range(256))):
            res['witnesses'].append({'kind': 'roundtrip', 'payload': pl.hex()})
        res['paths'] += 1
        res['decisions'] += 1
    res['samples'].append({'job': [str(x)[:40] for x in spec], 'roundtrips': res['counters'].get('roundtrips', 0)})
    return res


def vacuity(tier, results, counters):
    errs = []
    if counters.get('roundtrips', 0) < 150:
        errs.append(f"only {counters.get('roundtrips', 0)} round trips")
    if counters.get('no_success_path', 0):
        errs.append(f"{counters['no_success_path']} structures without a successful round trip")
    return errs
