"""Concrete twins of the oracles: evaluate a saved case against the unmodified code (no z3, no shims).
replay(case) -> {'reproduced': True|False|None, 'detail': str, 'failed': [check names]}
reproduced=True  : the real code violates the stated predicate on this concrete input
reproduced=False : the real code satisfies every requested predicate on this input"""
import io
import json
import os

from . import oracle_layout as ol

SPEC_DIR = os.path.join(os.path.dirname(os.path.dirname(os.path.abspath(__file__))), "spec")
LIB_ERRORS = ("RTCMMessageError", "RTCMParseError", "RTCMStreamError", "RTCMTypeError")
_MSM = None


def msm_spec():
    global _MSM
    if _MSM is None:
        _MSM = json.load(open(os.path.join(SPEC_DIR, "msm.json")))
    return _MSM


def is_lib_error(e):
    import pyrtcm.exceptions as ex
    return isinstance(e, tuple(getattr(ex, n) for n in LIB_ERRORS))


class Overrun(Exception):
    pass


def bits_of(payload, off, w):
    nb = len(payload) * 8
    if off + w > nb:
        raise Overrun(f"bits [{off},{off + w}) beyond {nb}")
    if w == 0:
        return 0
    return (int.from_bytes(payload, "big") >> (nb - off - w)) & ((1 << w) - 1)


def ref_identity(payload):
    """identity string from the first 12 bits (+ 8-bit sub-type at bits 15..22 for 4076); None if too short"""
    if len(payload) < 2:
        return None
    num = bits_of(payload, 0, 12)
    if num == 4076:
        if len(payload) < 3:
            return None
        return "4076_%03d" % bits_of(payload, 15, 8)
    return str(num)


def concrete_layout(payload, identity=None):
    """(identity, layout|None, overrun: bool).  layout None => identity without definition"""
    identity = identity or ref_identity(payload)
    tb = ol.tables()
    if identity is None or identity not in tb['payloads']:
        return identity, None, False

    def valueof(name, off, w, what):
        v = bits_of(payload, off, w)
        return bin(v).count("1") if what == 'popcount' else v
    try:
        lay = ol.walk(identity, valueof, tb)
    except Overrun:
        return identity, None, True
    if lay.total > len(payload) * 8:
        return identity, lay, True
    return identity, lay, False


def prn_expect(cons, sat_id):
    """(expected normalised label, pinned?)   normalised: int PRN number, special name or 'N/A'"""
    s = msm_spec()['constellations'][cons]
    if sat_id in s['unpinned_sat_ids']:
        return None, False
    if str(sat_id) in s['special']:
        return s['special'][str(sat_id)], True
    if s['prn']['first_id'] <= sat_id <= s['prn']['last_id']:
        return sat_id + s['prn']['offset'], True
    return "N/A", True


def norm_label(x):
    if isinstance(x, str) and x.isdigit():
        return int(x)
    return x


def sig_expect(cons, sig_id, option, repo_sigmap):
    """expected signal label for the given option (option 2 = frequency band, anything else RINEX code)"""
    s = msm_spec()['constellations'][cons]
    if sig_id in s['unpinned_sig_ids']:
        ent = repo_sigmap.get(sig_id)
        return (None if ent is None else ent[0 if option == 2 else 1]), False
    code = s['rinex'].get(str(sig_id))
    if code is None:
        return "N/A", True
    if option == 2:
        ent = repo_sigmap.get(sig_id)
        # band names are pyrtcm's own vocabulary: read from the repo table; the oracle decides which entry
        return (ent[0] if ent is not None else None), True
    return code, True


def expected_attrs(payload, labelmsm=1):
    """independent decode: ordered dict name -> value, or 'overrun', or None (no definition)"""
    identity, lay, over = concrete_layout(payload)
    if over:
        return identity, 'overrun'
    if lay is None:
        return identity, None
    tb = ol.tables()
    out = {}
    ismsm = identity in tb['msm']
    sats, sigs, cells = [], [], []
    if ismsm:
        byn = lay.by_name()
        m394 = bits_of(payload, byn['DF394'].off, 64)
        m395 = bits_of(payload, byn['DF395'].off, 32)
        sats = [i for i in range(1, 65) if m394 >> (64 - i) & 1]
        sigs = [i for i in range(1, 33) if m395 >> (32 - i) & 1]
        wc = len(sats) * len(sigs)
        m396 = bits_of(payload, byn['DF396'].off, wc)
        k = 0
        for s_ in sats:
            for g_ in sigs:
                k += 1
                if m396 >> (wc - k) & 1:
                    cells.append((s_, g_))
    for f in lay.fields:
        if f.typ in ol.DERIVED:
            i = f.idx[0]
            if f.typ == "PRN":
                out[f.name] = ('prn', sats[i - 1])
            elif f.typ == "CPR":
                out[f.name] = ('prn', cells[i - 1][0])
            else:
                out[f.name] = ('sig', cells[i - 1][1])
            continue
        raw = bits_of(payload, f.off, f.w)
        v = ol.ref_value_concrete(raw, f.w, f.typ, f.res)
        if f.typ == "STR":
            out[f.key] = out.get(f.key, "") + ("" if raw == 0 else v)
        else:
            out[f.name] = v
        if ismsm and f.key == "DF394":
            out[tb['NSAT']] = len(sats)
        if ismsm and f.key == "DF395":
            out[tb['NSIG']] = len(sigs)
        if ismsm and f.key == "DF396":
            out[tb['NCELL']] = len(cells)
    return identity, out


def public_attrs(m):
    return {k: v for k, v in m.__dict__.items() if not k.startswith("_")}


def compare_attrs(identity, exp, got, labelmsm, checks):
    """list of mismatch strings"""
    from pyrtcm.rtcmtables import PRNSIGMAP
    bad = []
    cons = identity[:3]
    for name, ev in exp.items():
        if name not in got:
            bad.append(f"missing attribute {name}")
            continue
        gv = got[name]
        if isinstance(ev, tuple) and ev[0] == 'prn':
            if 'msm' not in checks:
                continue
            e, pinned = prn_expect(cons, ev[1])
            if pinned:
                if norm_label(gv) != e:
                    bad.append(f"{name}: satellite ID {ev[1]} labelled {gv!r}, expected {e!r}")
            elif gv != "N/A" and norm_label(gv) != ev[1]:
                bad.append(f"{name}: satellite ID {ev[1]} (unpinned range) labelled {gv!r}")
        elif isinstance(ev, tuple) and ev[0] == 'sig':
            if 'msm' not in checks:
                continue
            sigmap = PRNSIGMAP[cons][1]
            opt = 2 if labelmsm == 2 else 1
            e, pinned = sig_expect(cons, ev[1], opt, sigmap)
            if pinned:
                if e is None:
                    bad.append(f"{name}: signal ID {ev[1]} has a pinned RINEX code but no table entry (label {gv!r})")
                elif gv != e:
                    bad.append(f"{name}: signal ID {ev[1]} labelled {gv!r}, expected {e!r}")
            elif gv != "N/A" and gv != e:
                bad.append(f"{name}: signal ID {ev[1]} (unpinned) labelled {gv!r}")
        else:
            if 'fields' not in checks:
                continue
            if type(gv) is not type(ev) and not (isinstance(gv, (int, float)) and isinstance(ev, (int, float))):
                bad.append(f"{name}: type {type(gv).__name__} != {type(ev).__name__}")
            elif gv != ev:
                bad.append(f"{name}: {gv!r} != expected {ev!r}")
    if 'fields' in checks:
        for name in got:
            if name not in exp:
                bad.append(f"unexpected attribute {name}")
    return bad


def replay_construct(case):
    from pyrtcm.rtcmmessage import RTCMMessage
    payload = bytes.fromhex(case['payload'])
    label = case.get('labelmsm', 1)
    checks = set(case.get('checks', ['total']))
    failed = []
    try:
        m = RTCMMessage(payload=payload, labelmsm=label)
        exc = None
    except Exception as e:  # noqa
        m, exc = None, e
    identity, exp = expected_attrs(payload, label) if (checks & {'fields', 'overrun', 'msm', 'decodable', 'names'}) else (ref_identity(payload), None)
    if 'total' in checks:
        if exc is not None and not is_lib_error(exc):
            failed.append(f"total: foreign exception {type(exc).__name__}: {exc}")
    if 'overrun' in checks and exp == 'overrun' and m is not None:
        failed.append("overrun: payload shorter than the fields it announces was accepted")
    if 'decodable' in checks and isinstance(exp, dict) and m is None:
        failed.append(f"decodable: complete payload rejected: {type(exc).__name__}: {exc}")
    if isinstance(exp, dict) and m is not None and (checks & {'fields', 'msm'}):
        for b in compare_attrs(identity, exp, public_attrs(m), label, checks)[:6]:
            failed.append("fields: " + b)
    if 'identity' in checks and m is not None:
        rid = ref_identity(payload)
        if m.identity != rid:
            failed.append(f"identity: {m.identity!r} != {rid!r}")
    if 'immutable_flag' in checks and m is not None:
        if m.__dict__.get('_immutable') is not True:
            failed.append("message not immutable after construction")
    return {"reproduced": bool(failed), "failed": failed, "detail": "; ".join(failed)[:600] or
            f"ok ({'message' if m is not None else type(exc).__name__})"}


REPLAYERS = {'construct': replay_construct}


def replay(case):
    kind = case.get('kind')
    if kind not in REPLAYERS:
        return {"reproduced": None, "detail": f"unknown case kind {kind!r}"}
    return REPLAYERS[kind](case)
