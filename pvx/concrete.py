"""Concrete twins of the oracles: evaluate a saved case against the unmodified code (no z3, no shims).
replay(case) -> {'reproduced': True|False|None, 'detail': str, 'failed': [check names]}
reproduced=True  : the real code violates the stated predicate on this concrete input
reproduced=False : the real code satisfies every requested predicate on this input"""
import io
import json
import os

from . import oracle_layout as ol

SPEC_DIR = os.path.join(os.path.dirname(os.path.dirname(os.path.abspath(__file__))), "spec")
LIB_ERRORS = ("RTCMMessageError", "RTCMParseError", "RTCMStreamError", "RTCMTypeError")
_MSM = None


def msm_spec():
    global _MSM
    if _MSM is None:
        _MSM = json.load(open(os.path.join(SPEC_DIR, "msm.json")))
    return _MSM


def is_lib_error(e):
    import pyrtcm.exceptions as ex
    return isinstance(e, tuple(getattr(ex, n) for n in LIB_ERRORS))


def crc24q_ref(data, poly=0x1864CFB):
    """CRC-24Q by schoolbook polynomial long division of data(x)*x^24 (MSB first, zero init, no final xor)"""
    r = 0
    for byte in data:
        for i in range(7, -1, -1):
            r = (r << 1) | ((byte >> i) & 1)
            if r >> 24:
                r ^= poly
    for _ in range(24):
        r <<= 1
        if r >> 24:
            r ^= poly
    return r


def _polymod(v, poly=0x1864CFB):
    while v.bit_length() > 24:
        v ^= poly << (v.bit_length() - 25)
    return v


_TABLE = None


def crc24q_table(data):
    """second formulation: byte-wise table, table entries from pure polynomial mod"""
    global _TABLE
    if _TABLE is None:
        _TABLE = [_polymod(i << 24) for i in range(256)]
    crc = 0
    for b in data:
        crc = ((crc << 8) & 0xFFFFFF) ^ _TABLE[((crc >> 16) ^ b) & 0xFF]
    return crc


def state_preimage(sv):
    """3 bytes that drive the zero register to state sv (crc of 3 bytes b is b*x^24 mod G; solve by brute linear algebra)"""
    # columns: effect of each input bit
    cols = []
    for i in range(24):
        b = (1 << (23 - i)).to_bytes(3, "big")
        cols.append(crc24q_ref(b))
    # gaussian elimination over GF(2)
    rows = [(cols[i], 1 << i) for i in range(24)]
    x = 0
    target = sv
    basis = []
    for v, tag in rows:
        for bv_, bt in basis:
            if v ^ bv_ < v:
                v ^= bv_
                tag ^= bt
        if v:
            basis.append((v, tag))
            basis.sort(reverse=True)
    for bv_, bt in basis:
        if target ^ bv_ < target:
            target ^= bv_
            x ^= bt
    out = 0
    for i in range(24):
        if x >> i & 1:
            out |= 1 << (23 - i)
    return out.to_bytes(3, "big")



class Overrun(Exception):
    pass


def bits_of(payload, off, w):
    nb = len(payload) * 8
    if off + w > nb:
        raise Overrun(f"bits [{off},{off + w}) beyond {nb}")
    if w == 0:
        return 0
    return (int.from_bytes(payload, "big") >> (nb - off - w)) & ((1 << w) - 1)


def ref_identity(payload):
    """identity string from the first 12 bits (+ 8-bit sub-type at bits 15..22 for 4076); None if too short"""
    if len(payload) < 2:
        return None
    num = bits_of(payload, 0, 12)
    if num == 4076:
        if len(payload) < 3:
            return None
        return "4076_%03d" % bits_of(payload, 15, 8)
    return str(num)


def concrete_layout(payload, identity=None):
    """(identity, layout|None, overrun: bool).  layout None => identity without definition"""
    identity = identity or ref_identity(payload)
    tb = ol.tables()
    if identity is None or identity not in tb['payloads']:
        return identity, None, False

    def valueof(name, off, w, what):
        v = bits_of(payload, off, w)
        return bin(v).count("1") if what == 'popcount' else v
    try:
        lay = ol.walk(identity, valueof, tb)
    except Overrun:
        return identity, None, True
    if lay.total > len(payload) * 8:
        return identity, lay, True
    return identity, lay, False


def repo_maps(cons):
    """(prnmap, sigmap) of the repository for a constellation prefix; tolerant of a re-keyed table (by constellation name)"""
    from pyrtcm.rtcmtables import PRNSIGMAP
    name = msm_spec()['constellations'][cons]['name']
    for k in (cons, name, name.title(), "IRNSS" if name == "NAVIC" else name, "NavIC" if name == "NAVIC" else name):
        if k in PRNSIGMAP:
            return PRNSIGMAP[k]
    return {}, {}


def prn_expect(cons, sat_id):
    """(expected normalised label, pinned?)   normalised: int PRN number, special name or 'N/A'"""
    s = msm_spec()['constellations'][cons]
    if sat_id in s['unpinned_sat_ids']:
        return None, False
    if str(sat_id) in s['special']:
        return s['special'][str(sat_id)], True
    if s['prn']['first_id'] <= sat_id <= s['prn']['last_id']:
        return sat_id + s['prn']['offset'], True
    return "N/A", True


def norm_label(x):
    if isinstance(x, str) and x.isdigit():
        return int(x)
    return x


def sig_expect(cons, sig_id, option, repo_sigmap):
    """expected signal label for the given option (option 2 = frequency band, anything else RINEX code)"""
    s = msm_spec()['constellations'][cons]
    if sig_id in s['unpinned_sig_ids']:
        ent = repo_sigmap.get(sig_id)
        return (None if ent is None else ent[0 if option == 2 else 1]), False
    code = s['rinex'].get(str(sig_id))
    if code is None:
        return "N/A", True
    if option == 2:
        ent = repo_sigmap.get(sig_id)
        # band names are pyrtcm's own vocabulary: read from the repo table; the oracle decides which entry
        return (ent[0] if ent is not None else None), True
    return code, True


def expected_attrs(payload, labelmsm=1):
    """independent decode: ordered dict name -> value, or 'overrun', or None (no definition)"""
    identity, lay, over = concrete_layout(payload)
    if over:
        return identity, 'overrun'
    if lay is None:
        return identity, None
    tb = ol.tables()
    out = {}
    ismsm = identity in tb['msm']
    sats, sigs, cells = [], [], []
    if ismsm:
        byn = lay.by_name()
        m394 = bits_of(payload, byn['DF394'].off, 64)
        m395 = bits_of(payload, byn['DF395'].off, 32)
        sats = [i for i in range(1, 65) if m394 >> (64 - i) & 1]
        sigs = [i for i in range(1, 33) if m395 >> (32 - i) & 1]
        wc = len(sats) * len(sigs)
        m396 = bits_of(payload, byn['DF396'].off, wc)
        k = 0
        for s_ in sats:
            for g_ in sigs:
                k += 1
                if m396 >> (wc - k) & 1:
                    cells.append((s_, g_))
    for f in lay.fields:
        if f.typ in ol.DERIVED:
            i = f.idx[0]
            if f.typ == "PRN":
                out[f.name] = ('prn', sats[i - 1])
            elif f.typ == "CPR":
                out[f.name] = ('prn', cells[i - 1][0])
            else:
                out[f.name] = ('sig', cells[i - 1][1])
            continue
        raw = bits_of(payload, f.off, f.w)
        v = ol.ref_value_concrete(raw, f.w, f.typ, f.res)
        if f.typ == "STR":
            out[f.key] = out.get(f.key, "") + ("" if raw == 0 else v)
        else:
            out[f.name] = v
        if ismsm and f.key == "DF394":
            out[tb['NSAT']] = len(sats)
        if ismsm and f.key == "DF395":
            out[tb['NSIG']] = len(sigs)
        if ismsm and f.key == "DF396":
            out[tb['NCELL']] = len(cells)
    return identity, out


def public_attrs(m):
    return {k: v for k, v in m.__dict__.items() if not k.startswith("_")}


def compare_attrs(identity, exp, got, labelmsm, checks):
    """list of mismatch strings"""
    from pyrtcm.rtcmtables import PRNSIGMAP
    bad = []
    cons = identity[:3]
    for name, ev in exp.items():
        if name not in got:
            bad.append(f"missing attribute {name}")
            continue
        gv = got[name]
        if isinstance(ev, tuple) and ev[0] == 'prn':
            if 'msm' not in checks:
                continue
            e, pinned = prn_expect(cons, ev[1])
            if pinned:
                if norm_label(gv) != e:
                    bad.append(f"{name}: satellite ID {ev[1]} labelled {gv!r}, expected {e!r}")
            elif gv != "N/A" and norm_label(gv) != ev[1]:
                bad.append(f"{name}: satellite ID {ev[1]} (unpinned range) labelled {gv!r}")
        elif isinstance(ev, tuple) and ev[0] == 'sig':
            if 'msm' not in checks:
                continue
            sigmap = repo_maps(cons)[1]
            opt = 2 if labelmsm == 2 else 1
            e, pinned = sig_expect(cons, ev[1], opt, sigmap)
            if pinned:
                if e is None:
                    bad.append(f"{name}: signal ID {ev[1]} has a pinned RINEX code but no table entry (label {gv!r})")
                elif gv != e:
                    bad.append(f"{name}: signal ID {ev[1]} labelled {gv!r}, expected {e!r}")
            elif gv != "N/A" and gv != e:
                bad.append(f"{name}: signal ID {ev[1]} (unpinned) labelled {gv!r}")
        else:
            if 'fields' not in checks:
                continue
            if type(gv) is not type(ev) and not (isinstance(gv, (int, float)) and isinstance(ev, (int, float))):
                bad.append(f"{name}: type {type(gv).__name__} != {type(ev).__name__}")
            elif gv != ev:
                bad.append(f"{name}: {gv!r} != expected {ev!r}")
    if 'fields' in checks:
        for name in got:
            if name not in exp:
                bad.append(f"unexpected attribute {name}")
    return bad


def check_helpers(m):
    """parse_msm / parse_4076_201 versus the message's own attributes"""
    from pyrtcm.rtcmhelpers import parse_msm, parse_4076_201
    tb = ol.tables()
    bad = []
    ident = m.identity
    pub = public_attrs(m)
    try:
        r = parse_msm(m)
    except Exception as e:  # noqa
        return [f"parse_msm raised {type(e).__name__}: {e}"]
    try:
        r2 = parse_4076_201(m)
    except Exception as e:  # noqa
        return [f"parse_4076_201 raised {type(e).__name__}: {e}"]
    if ident in tb['msm']:
        if not (isinstance(r, tuple) and len(r) == 3):
            return [f"parse_msm returned {r!r}"[:100]]
        meta, sats, cells = r
        ep = msm_spec()['epoch_field'][ident[:3]]
        want = {'identity': ident, 'station': pub.get('DF003'), 'epoch': pub.get(ep), 'sats': pub.get(tb['NSAT']), 'cells': pub.get(tb['NCELL'])}
        for k, v in want.items():
            if meta.get(k) != v:
                bad.append(f"meta[{k}]={meta.get(k)!r}, message has {v!r}")
        for arr, n, nm in ((sats, pub[tb['NSAT']], 'satellite'), (cells, pub[tb['NCELL']], 'cell')):
            if len(arr) != n:
                bad.append(f"{len(arr)} {nm} entries, expected {n}")
                continue
            for i, ent in enumerate(arr, 1):
                for k, v in ent.items():
                    if pub.get(f"{k}_{i:02d}", object()) != v:
                        bad.append(f"{nm} {i}: {k}={v!r} but attribute {k}_{i:02d}={pub.get(f'{k}_{i:02d}')!r}")
        cellbases = ("CELLPRN", "CELLSIG", "DF400", "DF401", "DF402", "DF403", "DF404", "DF405", "DF406", "DF407", "DF408", "DF420")
        for k in pub:
            if "_" in k and k.rsplit("_", 1)[1].isdigit() and len(k.rsplit("_", 1)[1]) >= 2 and not k.startswith("DF001_"):
                base, idx = k.rsplit("_", 1)
                arr = cells if base in cellbases else sats
                if int(idx) > len(arr) or base not in arr[int(idx) - 1]:
                    bad.append(f"attribute {k} missing from the arrays")
    elif r is not None:
        bad.append(f"parse_msm returned a value for {ident}")
    if ident == "4076_201":
        if not isinstance(r2, dict):
            return bad + [f"parse_4076_201 returned {type(r2).__name__}"]
        layers = pub["IDF035"] + 1
        if len(r2) != layers:
            bad.append(f"{len(r2)} layers, expected {layers}")
        for li, (key, ent) in enumerate(sorted(r2.items())):
            L = li + 1
            if ent.get("Layer Height") != pub.get(f"IDF036_{L:02d}"):
                bad.append(f"layer {L}: height")
            for field, cname in (("IDF039", "Cosine Coefficients"), ("IDF040", "Sine Coefficients")):
                exp = []
                i = 1
                while f"{field}_{L:02d}_{i:02d}" in pub:
                    exp.append(pub[f"{field}_{L:02d}_{i:02d}"])
                    i += 1
                if ent.get(cname) != exp:
                    bad.append(f"layer {L}: {cname} differ from the {len(exp)} decoded {field} attributes in index order")
    elif r2 is not None:
        bad.append(f"parse_4076_201 returned a value for {ident}")
    return bad


def replay_construct(case):
    from pyrtcm.rtcmmessage import RTCMMessage
    payload = bytes.fromhex(case['payload'])
    label = case.get('labelmsm', 1)
    checks = set(case.get('checks', ['total']))
    failed = []
    hopts = case.get('history_opts') or []
    for hi, h in enumerate(case.get('history', [])):    # messages parsed earlier in the same process
        try:
            hm = RTCMMessage(payload=bytes.fromhex(h), labelmsm=hopts[hi] if hi < len(hopts) else label)
            if case.get('history_helpers'):
                from pyrtcm.rtcmhelpers import parse_msm, parse_4076_201
                parse_msm(hm)
                parse_4076_201(hm)
        except Exception:  # noqa
            pass
    try:
        m = RTCMMessage(payload=payload, labelmsm=label)
        exc = None
    except Exception as e:  # noqa
        m, exc = None, e
    identity, exp = expected_attrs(payload, label) if (checks & {'fields', 'overrun', 'msm', 'decodable', 'names'}) else (ref_identity(payload), None)
    if 'total' in checks:
        if exc is not None and not is_lib_error(exc):
            failed.append(f"total: foreign exception {type(exc).__name__}: {exc}")
    if 'overrun' in checks and exp == 'overrun' and m is not None:
        failed.append("overrun: payload shorter than the fields it announces was accepted")
    if 'decodable' in checks and isinstance(exp, dict) and m is None:
        failed.append(f"decodable: complete payload rejected: {type(exc).__name__}: {exc}")
    if isinstance(exp, dict) and m is not None and (checks & {'fields', 'msm'}):
        for b in compare_attrs(identity, exp, public_attrs(m), label, checks)[:6]:
            failed.append("fields: " + b)
    if 'identity' in checks and m is not None:
        rid = ref_identity(payload)
        if m.identity != rid:
            failed.append(f"identity: {m.identity!r} != {rid!r}")
    if 'stub' in checks:
        rid = ref_identity(payload)
        if rid is not None and rid not in ol.tables()['payloads']:
            if m is None:
                failed.append(f"stub: message number {rid} without definition raised {type(exc).__name__}: {exc}")
            else:
                pub = public_attrs(m)
                if list(pub) != ["DF002"] or str(pub["DF002"]) != rid:
                    failed.append(f"stub: attributes {pub}")
                if m.payload != payload:
                    failed.append("stub: payload not preserved")
                frame = b"\xd3" + len(payload).to_bytes(2, "big") + payload
                frame += crc24q_ref(frame).to_bytes(3, "big")
                if len(payload) < 1024 and m.serialize() != frame:
                    failed.append("stub: serialize() does not reproduce the frame")
    if 'ismsm' in checks and m is not None and len(payload) >= 2:
        num = bits_of(payload, 0, 12)
        if num in msm_spec()['msm_numbers'] and m.ismsm is not True:
            failed.append(f"ismsm false for MSM number {num}")
        if not (1070 <= num <= 1229) and m.ismsm is not False:
            failed.append(f"ismsm true for number {num}")
    if 'helpers' in checks and m is not None:
        failed += ["helpers: " + x for x in check_helpers(m)[:4]]
    if 'immutable_flag' in checks and m is not None:
        if m.__dict__.get('_immutable') is not True:
            failed.append("message not immutable after construction")
    return {"reproduced": bool(failed), "failed": failed, "detail": "; ".join(failed)[:600] or
            f"ok ({'message' if m is not None else type(exc).__name__})"}


class FaultStream:
    """concrete twin of shims.SymStream: faults = {call index: returned length}"""

    def __init__(self, data, faults=None):
        self.d = bytes(data)
        self.pos = 0
        self.ncalls = 0
        self.faults = {int(k): v for k, v in (faults or {}).items()}

    def read(self, n=-1):
        self.ncalls += 1
        rem = max(0, len(self.d) - self.pos)     # a seek may have moved the position past the end
        if n is None or n < 0:
            n = rem
        k = min(n, rem)
        if self.ncalls in self.faults:
            k = min(k, self.faults[self.ncalls])
        out = self.d[self.pos:self.pos + k]
        self.pos += k
        return out

    def readline(self):
        self.ncalls += 1
        i = self.d.find(b"\n", self.pos)
        end = len(self.d) if i < 0 else i + 1
        if self.ncalls in self.faults:
            end = min(end, self.pos + self.faults[self.ncalls])
        out = self.d[self.pos:end]
        self.pos = end
        return out

    # a file object is seekable: position arithmetic as io.BytesIO does it (whence 0/1/2, clamped at 0)
    def seekable(self):
        return True

    def readable(self):
        return True

    def tell(self):
        return self.pos

    def seek(self, off, whence=0):
        base = 0 if whence == 0 else self.pos if whence == 1 else len(self.d)
        new = base + off
        if new < 0:
            if whence == 0:
                raise ValueError(f"negative seek value {off}")
            new = 0
        self.pos = new
        return new


import socket as _socket


class ScriptSocket(_socket.socket):
    """concrete twin of shims.SymSocket: replays a recv script, then delivers what is left / signals close"""

    def __init__(self, data, script=None):
        super().__init__()
        self.d = bytes(data)
        self.pos = 0
        self.script = list(script or [])
        self.i = 0
        self.events = []

    def recv(self, n, flags=0):
        if self.i < len(self.script):
            ent = self.script[self.i]
            self.i += 1
            if ent[0] == 't':
                self.events.append('fault')
                raise TimeoutError("scripted")
            if ent[0] == 'o':
                self.events.append('fault')
                raise OSError("scripted")
            if ent[0] == 'c':
                self.events.append('closed')
                return b""
            k = min(ent[1], n, len(self.d) - self.pos)
        else:
            k = min(n, len(self.d) - self.pos)
        if k == 0:
            self.events.append('closed')
        out = self.d[self.pos:self.pos + k]
        self.pos += k
        return out


def replay_sockread(case):
    from pyrtcm.socketwrapper import SocketWrapper
    data = bytes.fromhex(case['data'])
    sock = ScriptSocket(data, case.get('recv_log'))
    failed = []
    try:
        w = SocketWrapper(sock, bufsize=case.get('bufsize', 4096), encoding=case.get('encoding', 0))
        delivered = b""
        for k in case.get('calls', []):
            sock.events = []
            if k == 'line':
                got = w.readline()
                if b"\r\n" in got[:-2]:
                    failed.append("readline continued past a CRLF")
                if not got.endswith(b"\r\n") and 'closed' not in sock.events and 'fault' not in sock.events and len(delivered + got) < len(data):
                    failed.append("readline ended without CRLF although the peer has not closed")
            else:
                got = w.read(k)
                if len(got) > k:
                    failed.append(f"read({k}) returned {len(got)} bytes")
                if len(got) < k and not sock.events:
                    failed.append(f"read({k}) returned {len(got)} bytes without close or timeout")
            delivered += bytes(got)
            if not data.startswith(delivered):
                failed.append("delivered bytes are not a prefix of the stream")
                break
            if delivered + bytes(w.buffer) != data[:sock.pos]:
                failed.append("delivered + buffered bytes differ from the bytes received so far")
                break
    except Exception as e:  # noqa
        failed.append(f"exception {type(e).__name__}: {e}")
    finally:
        sock.close()
    return {"reproduced": bool(failed), "failed": failed, "detail": "; ".join(failed)[:500] or "ok"}


def ref_dechunk(stream):
    """RFC 9112 chunked-body reference over the unsegmented stream: list of chunk bodies"""
    out = []
    i = 0
    while i < len(stream):
        j = stream.find(b"\r\n", i)
        if j < 0:
            break
        line = stream[i:j].split(b";")[0].strip()
        try:
            n = int(line, 16)
        except ValueError:
            break
        i = j + 2
        if n == 0:
            break
        if i + n > len(stream):
            break
        out.append(stream[i:i + n])
        i += n
        if stream[i:i + 2] != b"\r\n":
            break
        i += 2
    return out


def replay_chunked(case):
    import pyrtcm.socketwrapper as sw
    from pyrtcm.socketwrapper import SocketWrapper
    data = bytes.fromhex(case['data'])
    enc = case['encoding']
    failed = []

    def fake_decompress(chunk, wbits=15, bufsize=None):   # stand-in for zlib (FFI): tags the bytes it was applied to
        return bytes([wbits & 0xFF]) + bytes(chunk)
    old = sw.decompress
    sw.decompress = fake_decompress
    sock = ScriptSocket(data, case.get('recv_log'))
    try:
        w = SocketWrapper(sock, encoding=enc, bufsize=case.get('bufsize', 4096))
        got = b""
        for _ in range(4 * len(data) + 8):
            d = w.read(1)
            if len(d) == 0:
                break
            got += bytes(d)
        exp = b""
        for body in ref_dechunk(data):
            if enc & 2:
                body = fake_decompress(body, wbits=15 | 16)
            if enc & 4:
                body = fake_decompress(body, wbits=15)
            if enc & 8:
                body = fake_decompress(body, wbits=-15)
            exp += body
        if got != exp:
            failed.append(f"delivered {got!r}, chunk bodies give {exp!r}")
    except Exception as e:  # noqa
        failed.append(f"exception {type(e).__name__}: {e}")
    finally:
        sw.decompress = old
        sock.close()
    return {"reproduced": bool(failed), "failed": failed, "detail": "; ".join(failed)[:500] or "ok"}


def frame_ok(raw):
    """well-formed RTCM3 frame with correct CRC-24Q (independent reference)"""
    return (len(raw) >= 6 and raw[0] == 0xD3 and raw[1] & 0xFC == 0 and ((raw[1] & 3) << 8 | raw[2]) == len(raw) - 6
            and crc24q_ref(raw) == 0 and crc24q_table(raw) == 0)


def drive_reader(stream, mode, validate=1, parsed=True, labelmsm=1, handler=True, max_calls=None, **kw):
    """iterate the real reader; returns (events, end, handler_calls)"""
    from pyrtcm.rtcmreader import RTCMReader
    import logging
    logging.disable(logging.CRITICAL)
    hc = []
    rdr = RTCMReader(stream, validate=validate, quitonerror=mode, labelmsm=labelmsm, parsed=parsed,
                     errorhandler=(hc.append if handler else None), **kw)
    events, end, calls = [], None, 0
    while True:
        calls += 1
        if max_calls is not None and calls > max_calls:
            end = 'budget'
            break
        try:
            raw, msg = next(rdr)
            events.append(('pair', raw, msg, getattr(stream, 'pos', None)))
        except StopIteration:
            end = 'stop'
            break
        except Exception as e:  # noqa
            events.append(('exc', e))
            if mode == 2 and is_lib_error(e):
                continue
            end = ('foreign' if not is_lib_error(e) else 'escaped', e)
            break
    return events, end, hc


def replay_stream(case):
    data = bytes.fromhex(case['data'])
    mode = case.get('mode', 1)
    checks = set(case.get('checks', ['c01', 'c04']))
    budget = 3 * len(data) + 8
    if case.get('kind') == 'socket':
        st = ScriptSocket(data, case.get('recv_log') or [['d', k] for k in case.get('recv', [])])
        checks.discard('c01')
        try:
            events, end, hc = drive_reader(st, mode, validate=case.get('validate', 1), parsed=case.get('parsed', True),
                                           labelmsm=case.get('labelmsm', 1), handler=case.get('handler', True), max_calls=budget,
                                           bufsize=case.get('bufsize', 4096), encoding=case.get('encoding', 0))
        finally:
            st.close()
    else:
        import signal
        st = FaultStream(data, case.get('faults'))

        class _Hang(BaseException):
            pass

        def _alarm(signum, frame):
            raise _Hang()
        old = signal.signal(signal.SIGALRM, _alarm)
        signal.alarm(20)
        try:
            events, end, hc = drive_reader(st, mode, validate=case.get('validate', 1), parsed=case.get('parsed', True),
                                           labelmsm=case.get('labelmsm', 1), handler=case.get('handler', True), max_calls=budget)
        except _Hang:
            return {"reproduced": True, "failed": ["c04: iteration over a finite stream did not finish within 20 s"],
                    "detail": f"c04: iteration over a finite stream of {len(data)} bytes did not finish within 20 s (watchdog)"}
        finally:
            signal.alarm(0)
            signal.signal(signal.SIGALRM, old)
    failed = []
    pairs = [e for e in events if e[0] == 'pair']
    if 'c04' in checks:
        if end == 'budget':
            failed.append(f"c04: iteration did not finish within {budget} calls")
        elif isinstance(end, tuple) and end[0] == 'foreign':
            failed.append(f"c04: foreign exception {type(end[1]).__name__}: {end[1]}")
        elif isinstance(end, tuple) and end[0] == 'escaped' and mode != 2:
            failed.append(f"c04: library exception {type(end[1]).__name__} escaped the iterator in mode {mode}")
    if 'c01' in checks and case.get('validate', 1) & 1:
        prev = 0
        for _, raw, msg, pos in pairs:
            p = pos - len(raw)
            if p < prev or data[p:p + len(raw)] != bytes(raw):
                failed.append(f"c01: returned bytes are not the stream slice ending at offset {pos}")
                break
            prev = pos
            if not frame_ok(bytes(raw)):
                failed.append(f"c01: returned frame at offset {p} is not a valid RTCM3 frame ({bytes(raw).hex()})")
            if msg is not None:
                if msg.payload != bytes(raw)[3:-3]:
                    failed.append("c01: parsed payload differs from the frame payload")
                elif msg.identity != ref_identity(msg.payload):
                    failed.append(f"c01: parsed identity {msg.identity}")
            elif case.get('parsed', True):
                failed.append("c01: no parsed object")
    if 'frames' in checks:
        exp = [bytes.fromhex(x) for x in case['expect_frames']]
        got = [bytes(e[1]) for e in pairs]
        min_pl = case.get('min_payload', 2)
        got_f = [g for g in got if len(g) - 6 >= min_pl]
        if got_f != exp:
            failed.append(f"frames: returned {[g.hex() for g in got_f]} expected {[e.hex() for e in exp]}")
        if end != 'stop' and not (mode == 2 and end == 'stop'):
            failed.append(f"frames: iteration ended with {end!r}")
    if 'handler' in checks:
        if len(hc) != case['expect_handler']:
            failed.append(f"handler: called {len(hc)} times, expected {case['expect_handler']}")
    if 'errors' in checks:
        nerr = len([e for e in events if e[0] == 'exc'])
        if nerr != case['expect_errors']:
            failed.append(f"errors: {nerr} exceptions raised, expected {case['expect_errors']}")
        for e in events:
            if e[0] == 'exc' and type(e[1]).__name__ != case.get('error_type', 'RTCMParseError'):
                failed.append(f"errors: raised {type(e[1]).__name__}")
    if 'unparsed' in checks:
        if any(e[2] is not None for e in pairs):
            failed.append("unparsed: a parsed object was returned with parsed=False")
    return {"reproduced": bool(failed), "failed": failed, "detail": "; ".join(failed)[:600] or f"ok ({len(pairs)} frames, end {end})"}


def replay_parse(case):
    from pyrtcm.rtcmreader import RTCMReader
    buf = bytes.fromhex(case['buffer'])
    v = case.get('validate', 1)
    checks = set(case.get('checks', ['total']))
    failed = []
    try:
        m = RTCMReader.parse(buf, validate=v, labelmsm=case.get('labelmsm', 1))
        exc = None
    except Exception as e:  # noqa
        m, exc = None, e
    if 'total' in checks and exc is not None and not is_lib_error(exc):
        failed.append(f"total: foreign exception {type(exc).__name__}: {exc}")
    if 'crcgate' in checks:
        bad = crc24q_ref(buf) != 0
        if v & 1 and bad and (exc is None or type(exc).__name__ != "RTCMParseError"):
            failed.append(f"crcgate: frame with non-zero CRC-24Q remainder not rejected with a parse error ({'accepted' if exc is None else type(exc).__name__})")
        if v & 1 and not bad and exc is not None and type(exc).__name__ == "RTCMParseError" and "CRC" in str(exc):
            failed.append("crcgate: frame with correct CRC rejected")
    if 'payload' in checks and m is not None and m.payload != buf[3:-3]:
        failed.append("payload: parsed payload is not the frame minus header and trailer")
    if 'same_as' in checks:
        other = bytes.fromhex(case['other'])
        try:
            m2 = RTCMReader.parse(other, validate=case.get('other_validate', 1), labelmsm=case.get('labelmsm', 1))
            e2 = None
        except Exception as e:  # noqa
            m2, e2 = None, e
        if (m is None) != (m2 is None):
            failed.append(f"same_as: outcomes differ ({type(exc).__name__ if exc else 'message'} vs {type(e2).__name__ if e2 else 'message'})")
        elif m is not None and (public_attrs(m) != public_attrs(m2) or m.identity != m2.identity):
            failed.append("same_as: attribute values differ")
    return {"reproduced": bool(failed), "failed": failed, "detail": "; ".join(failed)[:600] or "ok"}


def replay_crc(case):
    from pyrtcm.rtcmhelpers import calc_crc24q, crc2bytes
    d = bytes.fromhex(case['data'])
    failed = []
    ref = crc24q_ref(d)
    if crc24q_table(d) != ref:
        return {"reproduced": None, "detail": "reference implementations disagree"}
    try:
        got = calc_crc24q(d)
        if got != ref:
            failed.append(f"calc_crc24q({d.hex()[:40]}..)={got!r}, CRC-24Q is {ref:#08x}")
        b = crc2bytes(d)
        if b != ref.to_bytes(3, "big"):
            failed.append(f"crc2bytes gives {b!r}, expected {ref.to_bytes(3, 'big')!r}")
        if calc_crc24q(d + ref.to_bytes(3, "big")) != 0:
            failed.append("CRC over message plus its checksum is not zero")
    except Exception as e:  # noqa
        failed.append(f"exception {type(e).__name__}: {e}")
    return {"reproduced": bool(failed), "failed": failed, "detail": "; ".join(failed)[:500] or "ok"}


def replay_crcseq(case):
    from pyrtcm.rtcmhelpers import calc_crc24q
    failed = []
    for i, h in enumerate(case['seq']):
        d = bytes.fromhex(h)
        try:
            got = calc_crc24q(d)
        except Exception as e:  # noqa
            failed.append(f"call {i}: {type(e).__name__}: {e}")
            continue
        if got != crc24q_ref(d):
            failed.append(f"call {i}: calc_crc24q({d.hex()}) = {got:#x}, CRC-24Q is {crc24q_ref(d):#x} (after {i} earlier calls)")
    return {"reproduced": bool(failed), "failed": failed, "detail": "; ".join(failed)[:500] or "ok"}


def replay_labelopt(case):
    from pyrtcm.rtcmmessage import RTCMMessage
    payload = bytes.fromhex(case['payload'])
    failed = []

    def mk(o):
        try:
            if case.get('via_reader'):
                frame = b"\xd3" + len(payload).to_bytes(2, "big") + payload
                frame += crc24q_ref(frame).to_bytes(3, "big")
                ev, end, _ = drive_reader(io.BytesIO(frame), 2, labelmsm=o, validate=case.get('validate', 1))
                ms = [e[2] for e in ev if e[0] == 'pair']
                return ms[0] if len(ms) == 1 else None
            return RTCMMessage(payload=payload, labelmsm=o)
        except Exception as e:  # noqa
            return e
    base = mk(1) if not case.get('via_reader') else RTCMMessage(payload=payload, labelmsm=case['options'][0])
    if case.get('via_reader'):
        got = mk(case['options'][0])
        if isinstance(base, Exception) != isinstance(got, Exception) or got is None:
            failed.append("reader and direct construction disagree on the outcome")
        elif not isinstance(base, Exception) and public_attrs(base) != public_attrs(got):
            failed.append("reader result differs from RTCMMessage(payload, labelmsm=option)")
        return {"reproduced": bool(failed), "failed": failed, "detail": "; ".join(failed) or "ok"}
    identity, exp = expected_attrs(payload)
    # parse in the given order first (history matters for a stateful decoder), then compare
    results = [(o, mk(o)) for o in case['options']]
    base = [m for o, m in results if o == 1 and o is not True][0] if any(o == 1 and o is not True for o, _ in results) else mk(1)
    byopt = {}
    for o, m in results:
        key = 2 if o == 2 else 1
        if not isinstance(m, Exception) and key in byopt and public_attrs(byopt[key]) != public_attrs(m):
            failed.append(f"option {o!r}: the same payload decoded differently on a later parse with an equivalent option")
        if not isinstance(m, Exception):
            byopt.setdefault(key, m)
    for o, m in results:
        if isinstance(m, Exception) != isinstance(base, Exception):
            failed.append(f"option {o!r}: outcome differs from option 1")
            continue
        if isinstance(m, Exception):
            continue
        a, b = public_attrs(base), public_attrs(m)
        if list(a) != list(b):
            failed.append(f"option {o!r}: attribute names differ")
            continue
        for k in a:
            if o == 2 and k.startswith("CELLSIG_"):
                continue
            if a[k] != b[k] or type(a[k]) is not type(b[k]):
                failed.append(f"option {o!r}: {k} = {b[k]!r}, with option 1 {a[k]!r}")
                break
        if isinstance(exp, dict):
            # one signal ID -> one label under this option
            seen = {}
            for k, v in exp.items():
                if isinstance(v, tuple) and v[0] == 'sig' and k in b:
                    if seen.setdefault(v[1], b[k]) != b[k]:
                        failed.append(f"option {o!r}: signal ID {v[1]} labelled both {seen[v[1]]!r} and {b[k]!r}")
    return {"reproduced": bool(failed), "failed": failed, "detail": "; ".join(failed)[:500] or "ok"}


def replay_roundtrip(case):
    from pyrtcm.rtcmmessage import RTCMMessage
    from pyrtcm.rtcmreader import RTCMReader
    payload = bytes.fromhex(case['payload'])
    failed = []
    if case.get('frame'):
        # a message obtained through parse() from a frame that need not be canonical (reserved header bits set / trailer unchecked)
        fr = bytes.fromhex(case['frame'])
        if case.get('fixcrc'):
            fr = fr[:-3] + crc24q_ref(fr[:-3]).to_bytes(3, "big")
        try:
            m5 = RTCMReader.parse(fr, validate=case.get('validate', 1))
        except Exception:  # noqa: rejecting such a frame is allowed
            m5 = None
        if m5 is not None:
            want5 = b"\xd3" + len(fr[3:-3]).to_bytes(2, "big") + fr[3:-3]
            want5 += crc24q_ref(want5).to_bytes(3, "big")
            try:
                if m5.payload != fr[3:-3]:
                    failed.append("parse(frame).payload is not the frame minus header and trailer")
                elif m5.serialize() != want5:
                    failed.append(f"parse({fr.hex()}, validate={case.get('validate', 1)}).serialize() = {m5.serialize().hex()}, canonical frame is {want5.hex()}")
            except Exception as e:  # noqa
                failed.append(f"exception {type(e).__name__}: {e}")
    try:
        m = RTCMMessage(payload=payload)
    except Exception as e:  # noqa
        return {"reproduced": bool(failed), "failed": failed, "detail": "; ".join(failed)[:500] or f"payload does not parse ({type(e).__name__}): nothing to round-trip"}
    try:
        f = m.serialize()
        want = b"\xd3" + len(payload).to_bytes(2, "big") + payload
        want += crc24q_ref(want).to_bytes(3, "big")
        if f != want:
            failed.append(f"serialize() = {f[:6].hex()}..{f[-3:].hex()} ({len(f)} bytes), canonical frame is {want[:6].hex()}..{want[-3:].hex()} ({len(want)} bytes)")
        m2 = RTCMReader.parse(f)
        if m2.payload != payload or m2.identity != m.identity or public_attrs(m2) != public_attrs(m):
            failed.append("parse(serialize(m)) differs from m")
        m3 = RTCMReader.parse(want)
        if m3.serialize() != want:
            failed.append("parse(frame).serialize() differs from the frame")
        m4 = eval(repr(m), {"RTCMMessage": RTCMMessage})
        if m4.payload != payload or public_attrs(m4) != public_attrs(m):
            failed.append("eval(repr(m)) differs from m")
        if m.payload != payload or not isinstance(m.payload, bytes):
            failed.append("payload getter does not return the original bytes")
    except Exception as e:  # noqa
        failed.append(f"exception {type(e).__name__}: {e}")
    return {"reproduced": bool(failed), "failed": failed, "detail": "; ".join(failed)[:500] or "ok"}


def replay_parseseq(case):
    from pyrtcm.rtcmreader import RTCMReader
    failed = []
    for i, h in enumerate(case['frames']):
        f = bytes.fromhex(h)
        try:
            m = RTCMReader.parse(f, validate=case.get('validate', 1))
        except Exception as e:  # noqa
            failed.append(f"frame {i}: {type(e).__name__}: {e}")
            continue
        if m.payload != f[3:-3] or m.identity != ref_identity(f[3:-3]):
            failed.append(f"frame {i}: parsed payload/identity are not the frame's (after {i} earlier parses)")
        else:
            _, exp = expected_attrs(f[3:-3])
            if isinstance(exp, dict):
                bad = compare_attrs(m.identity, exp, public_attrs(m), 1, {'fields'})
                if bad:
                    failed.append(f"frame {i}: {bad[0]}")
    return {"reproduced": bool(failed), "failed": failed, "detail": "; ".join(failed)[:500] or "ok"}


def corpus_frames():
    """valid frames of a dozen message families, built by the independent layout walker (seeded)"""
    import random
    from . import structs
    rnd = random.Random(20261004)
    out = []
    specs = [("1005", dict(mode=('uniform', 1))), ("1004", dict(mode=('uniform', 2))), ("1230", dict(flags=5)), ("1029", dict(mode=('uniform', 3))),
             ("1077", dict(nsat=2, nsig=2, cellmask=3, maskmode='value', seed=1)), ("1124", dict(nsat=1, nsig=2, cellmask='ones', maskmode='value', seed=2)),
             ("1059", dict(mode=('uniform', 2))), ("4076_025", dict(mode=('uniform', 1))), ("4076_201", dict(harm=(0, 2, 1))), ("1019", dict(mode=('uniform', 1))),
             ("4076_201", dict(harm=(1, 4, 2), harmvary=1)), ("1084", dict(nsat=3, nsig=2, cellmask=5, maskmode='value', seed=7))]
    for ident, st in specs:
        try:
            p, _ = structs.concrete_payload(ident, structs.chooser(st), rnd)
        except Exception:  # noqa
            continue
        f = b"\xd3" + len(p).to_bytes(2, "big") + p
        out.append(f + crc24q_ref(f).to_bytes(3, "big"))
    p = bytes.fromhex("fe800100")
    f = b"\xd3" + len(p).to_bytes(2, "big") + p
    out.append(f + crc24q_ref(f).to_bytes(3, "big"))
    return out


def corpus_stream(seed=0):
    """(stream bytes, list of frames with a message number in order): recorded-style mix of frames, NMEA, UBX and noise"""
    import random
    rnd = random.Random(seed)
    frames = corpus_frames()
    rnd.shuffle(frames)
    out, exp = b"", []
    for i, f in enumerate(frames[:7]):
        if i % 3 == 0:
            out += b"$GNGGA,1,2*33\r\n"
        if i % 3 == 1:
            out += b"\xb5\x62\x01\x07\x02\x00\xd3\x00\x11\x22"
        if i % 4 == 2:
            out += bytes(rnd.choice(b"\x00\x11\x7f\xfe") for _ in range(3))
        out += f
        exp.append(f)
    return out, exp


def replay_tables(case):
    import copy
    import pyrtcm.rtcmtypes_core as tc
    import pyrtcm.rtcmtypes_get as tg
    import pyrtcm.rtcmtypes_get_msm as tm
    import pyrtcm.rtcmtypes_get_igs as ti
    import pyrtcm.rtcmtables as tt
    from pyrtcm.rtcmreader import RTCMReader

    def snap():
        return {(m.__name__, k): copy.deepcopy(v) for m in (tc, tg, tm, ti, tt) for k, v in vars(m).items()
                if isinstance(v, (dict, list, tuple, set)) and not k.startswith("__")}
    base = snap()
    for f in corpus_frames() + [bytes.fromhex(x) for x in case.get('frames', [])]:
        for v in (1, 0):
            try:
                RTCMReader.parse(f, validate=v)
            except Exception:  # noqa
                pass
    if True:   # MSM messages with awkward masks (unmapped satellite slots, reserved signals) are part of the corpus
        from . import structs
        from pyrtcm.rtcmmessage import RTCMMessage
        for b in structs.MSM_BASES:
            for lvl in (1, 4, 7):
                for pl in structs.random_msm_cases(str(b + lvl), 3, 6):
                    for opt in (1, 2):
                        try:
                            RTCMMessage(payload=pl, labelmsm=opt)
                        except Exception:  # noqa
                            pass
    cur = snap()
    ch = sorted(f"{m}.{k}" for (m, k) in base if cur.get((m, k)) != base[(m, k)])
    return {"reproduced": bool(ch), "failed": ch, "detail": ("tables modified by parsing: " + ", ".join(ch[:5])) if ch else "ok"}


THREAD_SCRIPT = r'''
import sys, threading, json
sys.setswitchinterval(1e-6)
from pyrtcm.rtcmreader import RTCMReader
frames = [bytes.fromhex(x) for x in json.loads(sys.argv[1])]
N = 8
bar = threading.Barrier(N)
res = [None] * N
def work(i):
    bar.wait()
    out = []
    for rep in range(3):
        for f in frames:
            try:
                m = RTCMReader.parse(f)
                out.append(["msg", m.identity, {k: repr(v) for k, v in m.__dict__.items() if not k.startswith("_")}])
            except Exception as e:
                out.append(["exc", type(e).__name__, str(e)[:80]])
    res[i] = out
ts = [threading.Thread(target=work, args=(i,)) for i in range(N)]
[t.start() for t in ts]; [t.join() for t in ts]
seq = []
for f in frames:
    try:
        m = RTCMReader.parse(f)
        seq.append(["msg", m.identity, {k: repr(v) for k, v in m.__dict__.items() if not k.startswith("_")}])
    except Exception as e:
        seq.append(["exc", type(e).__name__, str(e)[:80]])
print("THREADS " + json.dumps({"threads": res, "after": seq}))
'''


def replay_threads(case):
    """concurrent parses in fresh interpreters (cold start, minimal switch interval) versus the independent oracle"""
    import subprocess
    import sys
    frames = corpus_frames()
    exp = []
    for f in frames:
        ident, e = expected_attrs(f[3:-3])
        if isinstance(e, dict):
            exp.append(["msg", ident, {k: v for k, v in e.items()}])
        elif e is None:
            exp.append(["msg", ident, None])
        else:
            exp.append(["exc", None, None])
    failed = []
    for attempt in range(int(case.get('attempts', 6))):
        env = dict(os.environ)
        env["PYTHONPATH"] = os.pathsep.join(x for x in sys.path if x)
        p = subprocess.run([sys.executable, "-c", THREAD_SCRIPT, json.dumps([f.hex() for f in frames])], capture_output=True, text=True, timeout=120, env=env)
        line = [x for x in p.stdout.splitlines() if x.startswith("THREADS ")]
        if not line:
            failed.append(f"attempt {attempt}: no result ({p.stderr[-200:]})")
            break
        r = json.loads(line[0][8:])
        for who, outs in [(f"thread {i}", o) for i, o in enumerate(r['threads'])] + [("sequential parse after the threads", r['after'])]:
            for j, o in enumerate(outs):
                e = exp[j % len(frames)]
                if o[0] != e[0] or (e[1] is not None and o[0] == "msg" and o[1] != e[1]):
                    failed.append(f"attempt {attempt}, {who}, frame {j % len(frames)}: outcome {o[:2]} expected {e[:2]}")
                elif o[0] == "msg" and e[2] is not None:
                    want = {k: repr(v) for k, v in e[2].items() if not (isinstance(v, tuple) and v and v[0] in ('prn', 'sig'))}
                    diff = [k for k in want if o[2].get(k) != want[k]]
                    if diff:
                        failed.append(f"attempt {attempt}, {who}, frame {j % len(frames)}: attribute {diff[0]} = {o[2].get(diff[0])} expected {want[diff[0]]}")
                if len(failed) > 3:
                    break
            if failed:
                break
        if failed:
            break
    return {"reproduced": bool(failed), "failed": failed[:4], "detail": "; ".join(failed[:3])[:500] or "ok (no interference observed)"}


def replay_setattr(case):
    from pyrtcm.rtcmmessage import RTCMMessage
    from pyrtcm.exceptions import RTCMMessageError
    payload = bytes.fromhex(case['payload'])
    try:
        m = RTCMMessage(payload=payload)
    except Exception as e:  # noqa
        return {"reproduced": False, "detail": f"payload does not parse: {type(e).__name__}"}
    kind, val = case['value']
    value = val if kind == 'int' else eval(val, {})
    before = (str(m), m.payload, m.identity, m.serialize(), dict(m.__dict__), repr(m))
    failed = []
    cands = [value]
    name = case['name']
    if kind == 'int' and hasattr(m, name):
        cur = getattr(m, name)
        cands += [cur, float(cur) if isinstance(cur, int) and not isinstance(cur, bool) else cur, bytearray(cur) if isinstance(cur, bytes) else cur]
    for v in cands:
        try:
            setattr(m, name, v)
            failed.append(f"assignment {name} = {v!r} was accepted")
        except RTCMMessageError:
            pass
        except Exception as e:  # noqa
            failed.append(f"assignment {name} raised {type(e).__name__}")
        after = (str(m), m.payload, m.identity, m.serialize(), dict(m.__dict__), repr(m))
        if after != before or any(after[4][k] is not before[4][k] for k in before[4]):
            failed.append(f"message changed by the attempted assignment of {name}")
        if failed:
            break
    return {"reproduced": bool(failed), "failed": failed, "detail": "; ".join(failed)[:400] or "ok"}


def replay_names(case):
    from pyrtcm.rtcmhelpers import att2idx, att2name, datadesc
    if 'batch' in case:
        failed = []
        for pre in case.get('pre', []):
            try:
                datadesc(pre)
            except Exception:  # noqa
                pass
        for b in case['batch']:
            for nm in b['names']:
                r = replay_names({'name': nm, 'key': b['key'], 'depth': b['depth']})
                if r['reproduced']:
                    failed += r['failed']
                if len(failed) > 5:
                    break
        return {"reproduced": bool(failed), "failed": failed[:6], "detail": "; ".join(failed[:3])[:400] or "ok"}
    name, key, depth = case['name'], case['key'], case['depth']
    failed = []
    rest = name[len(key):]
    idx = [int(x) for x in rest.split("_")[1:]] if rest else []
    try:
        if att2name(name) != key:
            failed.append(f"att2name({name!r}) = {att2name(name)!r}, field is {key!r}")
        got = att2idx(name)
        want = 0 if not idx else idx[0] if len(idx) == 1 else tuple(idx)
        if got != want:
            failed.append(f"att2idx({name!r}) = {got!r}, expected {want!r}")
        d = datadesc(name)
        if d != ol.tables()['fields'][key][3]:
            failed.append(f"datadesc({name!r}) = {d!r}")
    except Exception as e:  # noqa
        failed.append(f"{type(e).__name__}: {e}")
    return {"reproduced": bool(failed), "failed": failed, "detail": "; ".join(failed)[:400] or "ok"}


def replay_options(case):
    data = bytes.fromhex(case['data'])
    mode = case.get('mode', 1)
    label = case.get('labelmsm', 1)
    failed = []
    budget = 3 * len(data) + 8
    ref_ev, ref_end, _ = drive_reader(io.BytesIO(data), mode, validate=1, parsed=True, labelmsm=label, max_calls=budget)
    ref = [(bytes(e[1]), e[2]) for e in ref_ev if e[0] == 'pair']
    if case['option'] == 'damaged':
        fr = case['frames']
        for nm, val, exp in (("validate=0", 0, [data[a:b] for a, b, dec in fr if dec]),
                             ("validate=1", 1, [data[a:b] for k, (a, b, dec) in enumerate(fr) if dec and k != case['damaged']])):
            ev, end, _ = drive_reader(io.BytesIO(data), 2, validate=val, parsed=True, labelmsm=1, max_calls=budget)
            got = [bytes(e[1]) for e in ev if e[0] == 'pair']
            if got != exp:
                failed.append(f"{nm}: returned {[g[:5].hex() for g in got]}, expected {[g[:5].hex() for g in exp]} (frame {case['damaged']} of the stream has a wrong checksum)")
            elif str(end) != 'stop':
                failed.append(f"{nm}: iteration ended with {end!r}")
        return {"reproduced": bool(failed), "failed": failed, "detail": "; ".join(failed)[:400] or "ok"}
    if case['option'] == 'tworeaders':
        from pyrtcm.rtcmreader import RTCMReader
        bad = bytearray(data)
        for a, b in case['frames']:
            bad[b - 2] ^= 0x40
        sa, sb = io.BytesIO(bytes(bad)), io.BytesIO(bytes(bad))
        if case.get('order', 0) == 0:
            ra = RTCMReader(sa, validate=0, quitonerror=0, labelmsm=2)
            rb = RTCMReader(sb, validate=1, quitonerror=0, labelmsm=1, parsed=False)
        else:
            rb = RTCMReader(sb, validate=1, quitonerror=0, labelmsm=1, parsed=False)
            ra = RTCMReader(sa, validate=0, quitonerror=0, labelmsm=2)
        outa = [x for x in ra]
        if len(outa) != len(case['frames']):
            failed.append(f"reader built with validate=0 returned {len(outa)} of {len(case['frames'])} frames with wrong checksums while a validate=1 reader exists")
        if any(m is not None for _, m in rb):
            failed.append("parsed=False reader returned parsed objects")
        return {"reproduced": bool(failed), "failed": failed, "detail": "; ".join(failed)[:400] or "ok"}
    if case['option'] == 'validate':
        bad = bytearray(data)
        for a, b in case['frames']:
            bad[b - 2] ^= 0x40            # wrong checksum bytes on every generated frame
        ev, end, _ = drive_reader(io.BytesIO(bytes(bad)), mode, validate=case['validate'], parsed=True, labelmsm=label, max_calls=budget)
        got = [(bytes(e[1]), e[2]) for e in ev if e[0] == 'pair']
        if len(got) != len(ref):
            failed.append(f"{len(got)} frames with validate={case['validate']} and wrong checksums, {len(ref)} with validation on and right ones")
        else:
            for (rg, mg), (rr, mr) in zip(got, ref):
                if rg[:-3] != rr[:-3]:
                    failed.append("frame bytes differ")
                elif (mg is None) != (mr is None) or (mg is not None and (public_attrs(mg) != public_attrs(mr) or mg.payload != mr.payload)):
                    failed.append(f"frame {rr[:6].hex()} decodes differently with validation off")
        if str(end) != str(ref_end) and not failed:
            failed.append(f"iteration ends {end!r} vs {ref_end!r}")
    else:
        ev, end, _ = drive_reader(io.BytesIO(data), mode, validate=1, parsed=case['parsed'], labelmsm=label, max_calls=budget)
        got = [(bytes(e[1]), e[2]) for e in ev if e[0] == 'pair' and len(e[1]) - 6 >= 2]
        ref = [r for r in ref if len(r[0]) - 6 >= 2]
        if [g[0] for g in got] != [r[0] for r in ref]:
            failed.append(f"parsed={case['parsed']} returns {len(got)} raw frames {[g[0][:4].hex() for g in got]}, parsed=True returns {len(ref)} {[r[0][:4].hex() for r in ref]}")
        if not case['parsed'] and any(g[1] is not None for g in got):
            failed.append("parsed=False returned a parsed object")
        if str(end) != str(ref_end) and not failed:
            failed.append(f"iteration ends {end!r} vs {ref_end!r}")
    return {"reproduced": bool(failed), "failed": failed, "detail": "; ".join(failed)[:500] or "ok"}


def replay_definition(case):
    from . import structs
    tb = ol.tables()
    ident = case['ident']
    try:
        ol.validate_shape(tb['payloads'][ident], ident)
        k = structs.kind_of(ident)
        st = dict(nsat=1, nsig=1, cellmask='ones', maskmode='value') if k == 'msm' else dict(harm=(1, 1, 1)) if k == 'harm' else \
            dict(flags=15) if k == 'flags' else dict(mode=('uniform', 2))
        ch = structs.chooser(st)
        ol.walk(ident, lambda name, off, w, what: (lambda v: (bin(v[1]).count("1") if what == 'popcount' else v[1]) if isinstance(v, tuple) else v)(ch(name, w, what)), tb)
        num = int(ident[:4])
        if (ident in tb['msm']) != (1070 <= num <= 1229) and ident in tb['msm']:
            return {"reproduced": True, "detail": "dispatch"}
        if 'dispatched' in case.get('why', ''):
            in_msm, in_igs = ident in tb['msm'], ident in tb['igs']
            ok = (in_msm == (1070 <= num <= 1229)) and (in_igs == (num == 4076)) if (in_msm or in_igs) else not (1070 <= num <= 1229 or num == 4076)
            return {"reproduced": not ok, "detail": case['why']}
    except ol.BadDefinition as e:
        return {"reproduced": True, "failed": [str(e)], "detail": f"definition of {ident} is malformed: {e}"}
    return {"reproduced": False, "detail": "definition is well-formed"}


def _layout_of(ident, st):
    from . import structs
    ch = structs.chooser(st)

    def valueof(name, off, w, what):
        v = ch(name, w, what)
        if isinstance(v, tuple):
            return bin(v[1]).count("1") if what == 'popcount' else v[1]
        return v
    return ol.walk(ident, valueof)


def replay_length(case):
    lay = _layout_of(case['ident'], case['struct'])
    bad = lay.total != case['pinned_bits']
    return {"reproduced": bad, "detail": f"{case['ident']}: definition occupies {lay.total} bits, pinned {case['pinned_bits']}" if bad else "ok"}


def replay_siblings(case):
    ids, rel = case['ids'], case['relation']
    sig = lambda f: (f.key, f.w, f.typ, f.res)
    failed = []
    if rel == 'composite':
        n = case.get('nsat', 1)
        L = [_layout_of(i, dict(mode=('uniform', n))) for i in ids]
        g = [[f for f in lay.fields if f.idx] for lay in L]
        for s_ in range(1, n + 1):
            per = [[sig(f) for f in gi if f.idx[0] == s_] for gi in g]
            if per[0] != per[1] + per[2][1:] or per[2][0] != per[1][0]:
                failed.append(f"satellite block {s_} of {ids[0]} != block of {ids[1]} + block of {ids[2]}")
    elif rel == 'contains':
        L = [_layout_of(i, dict(mode=('uniform', 1))) for i in ids]
        gb, gs = [sig(f) for f in L[0].fields if f.idx], [sig(f) for f in L[1].fields if f.idx]
        tb_, ts = [sig(f) for f in L[0].fields if not f.idx and f.key != "DF002"], [sig(f) for f in L[1].fields if not f.idx and f.key != "DF002"]
        it, it2 = iter(gb), iter(tb_)
        if not all(any(x == y for y in it) for x in gs) or not all(any(x == y for y in it2) for x in ts):
            failed.append(f"{ids[0]} does not contain the fields of {ids[1]} in order")
    else:
        st = dict(nsat=2, nsig=2, cellmask='ones', maskmode='value', seed=1) if rel == 'parallel-msm' else dict(mode=('uniform', 2))
        L = [_layout_of(i, st) for i in ids]
        key = (lambda f: (f.w, f.typ, 0 if f.res in (0, 1) else f.res, len(f.idx))) if rel == 'parallel-msm' else (lambda f: (f.key, f.w, f.typ, f.res, len(f.idx)))

        def tail(lay):
            ks = [f.key for f in lay.fields]
            i = ks.index("DF393") if rel == 'parallel-msm' and "DF393" in ks else 0
            return [lay.fields[i].off if rel == 'parallel-msm' else 0] + [key(f) for f in lay.fields[i:]]
        if tail(L[0]) != tail(L[1]):
            failed.append(f"{ids[0]} and {ids[1]} are laid out differently")
    return {"reproduced": bool(failed), "failed": failed, "detail": "; ".join(failed) or "ok"}


def replay_sockpair(case):
    from pyrtcm.socketwrapper import SocketWrapper
    enc = case.get('encoding', 0)
    a, b = bytes.fromhex(case['first']), bytes.fromhex(case['second'])
    if enc:
        a = b"%x\r\n" % len(a) + a + b"\r\n"
        wire_b = b"%x\r\n" % len(b) + b + b"\r\n0\r\n\r\n"
    else:
        wire_b = b
    s1, s2 = ScriptSocket(a), ScriptSocket(wire_b)
    failed = []
    try:
        w1 = SocketWrapper(s1, encoding=enc)
        w1.read(2)
        w2 = SocketWrapper(s2, encoding=enc)
        got = b""
        for _ in range(len(b) + 3):
            x = w2.read(1)
            if not x:
                break
            got += bytes(x)
        if got != b:
            failed.append(f"second wrapper delivered {got!r}, its stream is {b!r}")
    finally:
        s1.close()
        s2.close()
    return {"reproduced": bool(failed), "failed": failed, "detail": "; ".join(failed) or "ok"}


def replay_sockstream(case):
    """reader over a scripted socket (cuts, one timeout); the caller keeps reading after end-of-data indications"""
    from pyrtcm.rtcmreader import RTCMReader
    import logging
    logging.disable(logging.CRITICAL)
    data = bytes.fromhex(case['data'])
    sock = ScriptSocket(data, case.get('recv_log'))
    failed = []
    try:
        rdr = RTCMReader(sock, quitonerror=case.get('mode', 1), errorhandler=lambda e: None)
        got = []
        for _ in range(len(data) + 6):
            try:
                raw, msg = rdr.read()
            except Exception as e:  # noqa
                if not is_lib_error(e):
                    failed.append(f"foreign exception {type(e).__name__}")
                    break
                continue
            if raw is not None:
                got.append((bytes(raw), msg))
            elif sock.pos >= len(data) and len(rdr.datastream.buffer) == 0:
                break
        pos = 0
        for raw, msg in got:
            i = data.find(raw, pos)
            if i < 0:
                failed.append(f"returned bytes {raw.hex()} are not a slice of the stream after offset {pos}")
                break
            pos = i + len(raw)
            if not frame_ok(raw):
                failed.append(f"returned frame {raw.hex()} is not a valid RTCM3 frame")
            elif msg is None or msg.payload != raw[3:-3]:
                failed.append("parsed payload differs from the frame payload")
    finally:
        sock.close()
    return {"reproduced": bool(failed), "failed": failed, "detail": "; ".join(failed)[:400] or "ok"}


def replay_crcpattern(case):
    """a valid frame XOR the error pattern must be rejected by the static parser with validation on"""
    from pyrtcm.rtcmreader import RTCMReader
    e = bytes.fromhex(case['error'])
    n = len(e)
    body = b"\xd3" + (n - 6).to_bytes(2, "big") + bytes((i * 7 + 3) & 0xFF for i in range(n - 6))
    frame = body + crc24q_ref(body).to_bytes(3, "big")
    bad = bytes(a ^ b for a, b in zip(frame, e))
    failed = []
    if any(e[:3]):
        return {"reproduced": None, "detail": "pattern touches the header"}
    try:
        RTCMReader.parse(bad, validate=1)
        failed.append("damaged frame accepted by parse(validate=1)")
    except Exception as ex:  # noqa
        if type(ex).__name__ != "RTCMParseError":
            failed.append(f"rejected with {type(ex).__name__} instead of a parse error")
    return {"reproduced": bool(failed), "failed": failed, "detail": "; ".join(failed) or "ok"}


REPLAYERS = {'crcpattern': replay_crcpattern, 'sockstream': replay_sockstream, 'sockpair': replay_sockpair, 'definition': replay_definition, 'length': replay_length, 'siblings': replay_siblings, 'options': replay_options, 'names': replay_names, 'setattr': replay_setattr, 'tables': replay_tables, 'threads': replay_threads, 'chunked': replay_chunked, 'sockread': replay_sockread, 'parseseq': replay_parseseq, 'roundtrip': replay_roundtrip, 'labelopt': replay_labelopt, 'crcseq': replay_crcseq, 'crc': replay_crc, 'construct': replay_construct, 'stream': replay_stream, 'socket': replay_stream, 'parse': replay_parse}


def replay(case):
    kind = case.get('kind')
    if kind not in REPLAYERS:
        return {"reproduced": None, "detail": f"unknown case kind {kind!r}"}
    return REPLAYERS[kind](case)
