"""C15 — identity is the transmitted message number; unknown types are preserved; MSM predicate."""
import z3

from . import sym, msgdrv, structs, concrete, oracle_layout as ol
from .core import JobResult

META = {
    "level": "model_checking",
    "functions": ["pyrtcm.rtcmmessage.RTCMMessage.identity", "._get_dict", "._do_unknown", ".ismsm", ".serialize", ".payload",
                  "pyrtcm.rtcmhelpers.len2bytes", "crc2bytes"],
    "transforms": ["if-conversion of RTCMMessage._set_attribute_single and calc_crc24q"],
    "shims": ["int", "bin", "chr"],
    "bounds": {"quick": "all 4096 message numbers (solver-enumerated) x payload lengths {2,3,4}; all 256 sub-types of 4076 x lengths {3,5}; every other "
                        "payload bit symbolic; every defined identity once in directed mode (counts 1)",
               "thorough": "as quick plus payload lengths {2,6,16}"},
    "outside": "payloads longer than 16 bytes for the stub clauses (the stub path does not look at them)",
    "assumptions": ["MSM numbers pinned in spec/msm.json: 1071-77,1081-87,...,1131-37; reserved numbers inside 1070-1229 may report either"],
}
WALL_BUDGET = {"quick": 900, "thorough": 3000}


def jobs(tier, seed):
    lens = (2, 3, 4) if tier == 'quick' else (2, 3, 4, 6, 16)
    out = [('num', hi, L) for hi in range(16) for L in lens]
    out += [('sub', L) for L in ((3, 5) if tier == 'quick' else (3, 5, 16))]
    out += [('defined', i) for i in range(8)]
    out += [('hist', i) for i in range(4)]
    return out


def check_path(eng, path, p, L, res, defined, msmset):
    """obligations on one path of RTCMMessage(payload=p) with free identity"""
    try:
        return _check_path(eng, path, p, L, res, defined, msmset)
    except sym.EngineSignal as e:      # a property of the message used an operation the proxies cannot model
        res['inconclusive'].append(f"post-construction observation: {type(e).__name__}: {str(e)[:80]}")


def _check_path(eng, path, p, L, res, defined, msmset):
    nb = 8 * L
    P = p.term()
    num = eng.unique(z3.ZeroExt(1, msgdrv.fterm(P, nb, 0, 12)))
    res['obligations'] += 1
    if num is None:
        res['refuted'] += 1
        cex(eng, p, res, ['identity'], "identity does not determine the first 12 bits on this path")
        return
    res['discharged'] += 1
    exp = str(num)
    if num == 4076:
        if L < 3:
            return   # no room for the sub-type: C04 territory
        sub = eng.unique(z3.ZeroExt(1, msgdrv.fterm(P, nb, 15, 8)))
        if sub is None:
            res['obligations'] += 1
            res['refuted'] += 1
            cex(eng, p, res, ['identity'], "4076: sub-type bits not determined on this path")
            return
        exp = "4076_%03d" % sub
    isdef = exp in defined
    if path.kind == 'exc':
        res['obligations'] += 1
        if isdef:
            res['discharged'] += 1   # short payload of an implemented type: rejected (C06)
            res.count('defined_rejected')
        else:
            res['refuted'] += 1
            cex(eng, p, res, ['total', 'stub'], f"message number {exp} without definition raised {type(path.value).__name__}: {path.value}")
        return
    if path.kind != 'ret':
        res['inconclusive'].append(f"{exp}: {path.kind} {path.value}")
        return
    m = path.value
    bad = []
    ident = m.identity
    if ident != exp:
        bad.append(f"identity {ident!r} != {exp!r}")
    msm = m.ismsm
    if num in msmset:
        if msm is not True:
            bad.append(f"ismsm {msm!r} for implemented MSM number {num}")
    elif not (1070 <= num <= 1229):
        if msm is not False:
            bad.append(f"ismsm {msm!r} for number {num} outside 1070-1229")
    if not isdef:
        pub = msgdrv.public_attrs(m)
        if list(pub) != ["DF002"]:
            bad.append(f"stub attributes {list(pub)}")
        else:
            v = pub["DF002"]
            if str(v) != exp and v != num:
                bad.append(f"stub DF002 {v!r}")
        if not sym.same_bytes(list(m.payload), list(p)):
            bad.append("stub payload differs from the input")
        ser = m.serialize()
        if len(ser) != L + 6 or list(ser[:3]) != [0xD3, L >> 8, L & 0xFF] or not sym.same_bytes(list(ser[3:3 + L]), list(p)):
            bad.append("serialize() does not re-frame the payload")
    else:
        pub = msgdrv.public_attrs(m)
        v = pub.get("DF002")
        ok = False
        if isinstance(v, sym.SymInt):
            ok = eng.unique(v.t) == num
        elif isinstance(v, int):
            ok = v == num
        if not ok:
            bad.append(f"DF002 of implemented type {exp} is {v!r}")
    if m.__dict__.get('_immutable') is not True:
        bad.append("not immutable after construction")
    res['obligations'] += 1
    if bad:
        res['refuted'] += 1
        cex(eng, p, res, ['identity', 'stub', 'ismsm', 'total'], "; ".join(bad))
    else:
        res['discharged'] += 1
    res.count('unknown_ok' if not isdef else 'defined_ok')
    if not bad and (num % 97 == 3 or num in (0, 4095, 1070, 1229, 1230)) and eng.check3() == 'sat':
        mdl = eng.model()
        pl = bytes(mdl.eval(sym.byte_term(e), model_completion=True).as_long() for e in p.e)
        res['witnesses'].append({'kind': 'construct', 'payload': pl.hex(), 'checks': ['identity', 'stub', 'ismsm', 'total']})


def cex(eng, p, res, checks, why):
    if eng.check3() == 'sat':
        mdl = eng.model()
        pl = bytes(mdl.eval(sym.byte_term(e), model_completion=True).as_long() for e in p.e)
        res['cex'].append({'kind': 'construct', 'payload': pl.hex(), 'checks': checks, 'why': why,
                           'dedup': why[:60] + pl[:3].hex()})
    else:
        res['harness_errors'].append("no model for " + why)


def run_job(spec):
    from pyrtcm.rtcmmessage import RTCMMessage
    msgdrv.install()
    res = JobResult(str(spec))
    tb = ol.tables()
    defined = set(tb['payloads'])
    msmset = set(concrete.msm_spec()['msm_numbers'])
    if spec[0] == 'defined':
        ids = structs.all_identities()[spec[1]::8]
        for ident in ids:
            if not structs.wellformed(ident):
                continue
            k = structs.kind_of(ident)
            sts = [dict(nsat=1, nsig=1, cellmask='ones', maskmode='value', seed=2), dict(nsat=0, nsig=0, cellmask='zero', maskmode='value'),
                   dict(nsat=0, nsig=1, cellmask='zero', maskmode='value', seed=3)] if k == 'msm' else \
                [dict(harm=(0, 1, 1))] if k == 'harm' else [dict(flags=5)] if k == 'flags' else [dict(mode=('uniform', 1)), dict(mode=('uniform', 0))]
            for st in sts:
                d = msgdrv.Directed(ident, structs.chooser(st), spare=1)
                eng = sym.Engine(max_paths=16, conc_limit=4)

                def fn():
                    return RTCMMessage(payload=d.build(eng))
                for path in eng.explore(fn):
                    check_path(eng, path, d.p, d.L, res, defined, msmset)
                res.absorb_engine(eng)
        return res
    if spec[0] == 'hist':
        # a message number WITHOUT definition parsed first (same 12-bit number where the family allows it: an undefined 4076 sub-type),
        # then an implemented type: identity, DF002 and decoding must be what they are from the pristine state
        ids = [i for i in structs.all_identities() if structs.wellformed(i)][spec[1]::4]
        for ident in ids:
            k = structs.kind_of(ident)
            st = dict(nsat=1, nsig=1, cellmask='ones', maskmode='value') if k == 'msm' else dict(harm=(0, 1, 1)) if k == 'harm' else \
                dict(flags=5) if k == 'flags' else dict(mode=('uniform', 1))
            d = msgdrv.Directed(ident, structs.chooser(st), spare=1)
            eng = sym.Engine(max_paths=16, conc_limit=4)
            H = {}

            def fn():
                u = sym.symbytes("u", 6)
                H['u'] = u
                if ident.startswith("4076"):
                    eng.assume(msgdrv.fterm(u.term(), 48, 0, 12) == 4076)
                    eng.assume(msgdrv.fterm(u.term(), 48, 15, 8) == 250)
                else:
                    eng.assume(msgdrv.fterm(u.term(), 48, 0, 12) == (int(ident[:4]) // 10 * 10 if 1070 <= int(ident[:4]) <= 1229 else 4072))
                try:
                    RTCMMessage(payload=u)
                except Exception:   # noqa
                    pass
                return RTCMMessage(payload=d.build(eng))
            for path in eng.explore(fn):
                n0 = len(res['cex'])
                check_path(eng, path, d.p, d.L, res, defined, msmset)
                if path.kind == 'ret' and len(msgdrv.public_attrs(path.value)) < 3:
                    res['obligations'] += 1
                    res['refuted'] += 1
                    cex(eng, d.p, res, ['fields', 'decodable'], f"{ident} decoded as a stub after a message without definition")
                for c in res['cex'][n0:]:
                    if eng.check3() == 'sat':
                        c['history'] = [bytes(eng.model().eval(sym.byte_term(e), model_completion=True).as_long() for e in H['u'].e).hex()]
                        c['checks'] = list(set(c['checks']) | {'fields', 'decodable'})
            res.absorb_engine(eng)
        return res
    if spec[0] == 'num':
        _, hi, L = spec
        eng = sym.Engine(max_paths=5000, conc_limit=4200, conc_small=0)
        H = {}

        def fn():
            p = sym.symbytes("p", L)
            H['p'] = p
            eng.assume(z3.Extract(7, 4, sym.byte_term(p.e[0])) == hi)
            return RTCMMessage(payload=p)
    else:
        _, L = spec
        eng = sym.Engine(max_paths=5000, conc_limit=300, conc_small=0)
        H = {}

        def fn():
            p = sym.symbytes("p", L)
            H['p'] = p
            eng.assume(msgdrv.fterm(p.term(), 8 * L, 0, 12) == 4076)
            return RTCMMessage(payload=p)
    for path in eng.explore(fn):
        check_path(eng, path, H['p'], L, res, defined, msmset)
    res.absorb_engine(eng)
    # counter truncations inside implemented types are C04/C06 territory
    res['trunc'] = [t for t in res['trunc'] if t and t[0] != 'conc_limit']
    if not res['samples']:
        res['samples'].append({'job': list(spec), 'paths': res['paths']})
    return res


def vacuity(tier, results, counters):
    errs = []
    if counters.get('unknown_ok', 0) < 3900:
        errs.append(f"only {counters.get('unknown_ok', 0)} unknown-number paths checked")
    return errs
