"""Concrete replay of a saved case against the unmodified code (no shims, no transforms).
Prints one line `REPLAY {json}` with reproduced = True (the violation shows on the real code),
False (the real code behaves as the oracle says) or null."""
import importlib
import json
import sys
import traceback

from .core import ensure_path


def main(path):
    ensure_path()
    case = json.load(open(path))
    try:
        mod = importlib.import_module("pvx.concrete")
        r = mod.replay(case)
    except BaseException as e:  # noqa
        r = {"reproduced": None, "detail": "replay crashed: " + "".join(
            traceback.format_exception(type(e), e, e.__traceback__))[-1200:]}
    print("REPLAY " + json.dumps(r, default=str))
    return 0


if __name__ == "__main__":
    sys.exit(main(sys.argv[1]))
