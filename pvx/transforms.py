"""Source transforms, regenerated on every run from inspect.getsource of the function in /repo.

1. if-conversion : `if T: <local assignments, call-free>` merges instead of forking when T is symbolic.
2. predication   : same, but the body may also store into subscripts, call .append and a whitelist of
                   pure functions; empty {} / [] displays become guarded containers.
Both fall back to an ordinary fork when a value cannot be merged or the speculative execution of a
branch raises.  A transform that does not apply is skipped (the function then simply forks).
"""
import ast
import copy
import hashlib
import inspect
import sys
import textwrap

from . import sym

PURE_CALLS = {"get", "getattr", "len"}


def _expr_ok(e, allow_calls):
    for n in ast.walk(e):
        if isinstance(n, ast.Call):
            if not allow_calls:
                return False
            f = n.func
            nm = f.attr if isinstance(f, ast.Attribute) else getattr(f, "id", None)
            if nm not in PURE_CALLS:
                return False
        if isinstance(n, (ast.Await, ast.Yield, ast.YieldFrom, ast.NamedExpr, ast.Lambda)):
            return False
    return True


def _body_names(stmts, pred):
    """names assigned by a branch body, or None if the body is not convertible"""
    names = []
    for s in stmts:
        if isinstance(s, ast.Assign) and len(s.targets) == 1:
            t = s.targets[0]
            if isinstance(t, ast.Name):
                names.append(t.id)
            elif pred and isinstance(t, ast.Subscript):
                if not _expr_ok(t, True):
                    return None
            else:
                return None
            if not _expr_ok(s.value, pred):
                return None
        elif isinstance(s, ast.AugAssign) and isinstance(s.target, ast.Name):
            names.append(s.target.id)
            if not _expr_ok(s.value, pred):
                return None
        elif (pred and isinstance(s, ast.Expr) and isinstance(s.value, ast.Call)
              and isinstance(s.value.func, ast.Attribute) and s.value.func.attr == "append"):
            if not all(_expr_ok(a, True) for a in s.value.args):
                return None
        elif isinstance(s, ast.Pass):
            pass
        elif isinstance(s, ast.Expr) and isinstance(s.value, ast.Constant):
            pass
        else:
            return None
    return names


def _stmt(src):
    return ast.parse(src).body[0]


class Conv(ast.NodeTransformer):
    def __init__(self, pred):
        self.pred = pred
        self.k = 0
        self.count = 0

    def visit_Dict(self, node):
        if self.pred and not node.keys:
            return ast.parse("__pvx.SymDict()").body[0].value
        return self.generic_visit(node)

    def visit_List(self, node):
        if self.pred and not node.elts and isinstance(node.ctx, ast.Load):
            return ast.parse("__pvx.SymList()").body[0].value
        return self.generic_visit(node)

    def visit_If(self, node):
        self.generic_visit(node)
        nb = _body_names(node.body, self.pred)
        ne = _body_names(node.orelse, self.pred)
        if nb is None or ne is None:
            return node
        names = sorted(set(nb + ne))
        self.k += 1
        self.count += 1
        k = self.k
        c = f"__c{k}"

        def restore(var):
            return [_stmt(f"if {var}[{n!r}] is not __pvx.UNB: {n} = {var}[{n!r}]") for n in names]

        def body():
            return copy.deepcopy(node.body)

        def orelse():
            return copy.deepcopy(node.orelse) or [ast.Pass()]

        if self.pred:
            w_then = _stmt(f"with __pvx.guard({c}): pass")
            w_then.body = body()
            w_else = _stmt(f"with __pvx.guard({c}, True): pass")
            w_else.body = orelse()
            then_part, else_part = [w_then], [w_else]
        else:
            then_part, else_part = body(), orelse()
        tr = _stmt(f"""
try:
    __m{k} = None
except __pvx.CannotMerge:
    __m{k} = None
except Exception:
    __m{k} = None
""")
        tr.body = ([_stmt(f"__s{k} = __pvx.snap(locals(), {names!r})")] + then_part
                   + [_stmt(f"__t{k} = __pvx.snap(locals(), {names!r})")] + restore(f"__s{k}") + else_part
                   + [_stmt(f"__e{k} = __pvx.snap(locals(), {names!r})"),
                      _stmt(f"__m{k} = __pvx.merge({c}, __t{k}, __e{k}, {names!r}, {self.pred!r})")])
        if self.pred:
            # container writes cannot be rolled back: a failed merge is not recoverable by forking
            symbranch = [tr, _stmt(f"if __m{k} is None: raise __pvx.CannotMerge('predicated branch {k}')")]
            symbranch += [_stmt(f"if {n!r} in __m{k}: {n} = __m{k}[{n!r}]") for n in names]
        else:
            fallback = restore(f"__s{k}") + [ast.If(test=ast.Name(c, ast.Load()), body=body(),
                                                    orelse=copy.deepcopy(node.orelse))]
            apply_ = [_stmt(f"if {n!r} in __m{k}: {n} = __m{k}[{n!r}]") for n in names] or [ast.Pass()]
            symbranch = [_stmt(f"__s{k} = __pvx.snap(locals(), {names!r})"), tr,
                         ast.If(test=ast.parse(f"__m{k} is None").body[0].value, body=fallback, orelse=apply_)]
        outer = ast.If(test=ast.parse(f"__pvx.issym({c})").body[0].value, body=symbranch,
                       orelse=[ast.If(test=ast.Name(c, ast.Load()), body=node.body, orelse=node.orelse)])
        return [ast.Assign(targets=[ast.Name(c, ast.Store())], value=node.test), outer]


class Friendly(ast.NodeTransformer):
    """rewrites calls the proxies cannot intercept:  <bytes/str literal>.join(x)  ->  __pvx.join(<literal>, x)"""

    def __init__(self):
        self.count = 0

    def visit_Call(self, node):
        self.generic_visit(node)
        f = node.func
        if isinstance(f, ast.Attribute) and f.attr == "join" and isinstance(f.value, ast.Constant) and isinstance(f.value.value, (bytes, str)) \
                and len(node.args) == 1 and not node.keywords:
            self.count += 1
            return ast.Call(func=ast.Attribute(value=ast.Name("__pvx", ast.Load()), attr="join", ctx=ast.Load()), args=[f.value, node.args[0]], keywords=[])
        return node


def friendly(fn):
    """(new function, number of rewritten calls); (fn, 0) when nothing applies or the source is unavailable"""
    try:
        tree = ast.parse(source_of(fn))
    except (OSError, TypeError, SyntaxError):
        return fn, 0
    if not isinstance(tree.body[0], ast.FunctionDef):
        return fn, 0
    tree.body[0].decorator_list = []
    t = Friendly()
    tree = t.visit(tree)
    if not t.count:
        return fn, 0
    ast.fix_missing_locations(tree)
    g = fn.__globals__
    g['__pvx'] = sym
    ns = {}
    exec(compile(tree, f"<pvx friendly {fn.__qualname__}>", "exec"), g, ns)
    new = ns[fn.__name__]
    new.__qualname__ = fn.__qualname__
    return new, t.count


def source_of(fn):
    return textwrap.dedent(inspect.getsource(fn))


def sha_of(fn):
    try:
        return hashlib.sha1(source_of(fn).encode()).hexdigest()[:12]
    except (OSError, TypeError):
        return "nosource"


def convert(fn, pred=False):
    """returns (new function, number of converted ifs); (fn, 0) if the source cannot be transformed"""
    try:
        src = source_of(fn)
        tree = ast.parse(src)
    except (OSError, TypeError, SyntaxError):
        return fn, 0
    fdef = tree.body[0]
    if not isinstance(fdef, (ast.FunctionDef,)):
        return fn, 0
    fdef.decorator_list = []
    t = Conv(pred)
    tree = t.visit(tree)
    if t.count == 0:
        return fn, 0
    ast.fix_missing_locations(tree)
    g = fn.__globals__
    g['__pvx'] = sym
    ns = {}
    code = compile(tree, f"<pvx {'pred' if pred else 'ifconv'} {fn.__qualname__}>", "exec")
    exec(code, g, ns)
    new = ns[fn.__name__]
    new.__qualname__ = fn.__qualname__
    new.__pvx_original__ = fn
    return new, t.count


# ----------------------------------------------------------------------------------------------
# Engine K: fold extraction  (function == pre ; for x in <param>: step ; post)
# ----------------------------------------------------------------------------------------------

class Fold:
    def __init__(self, fn):
        self.ok = False
        self.why = ""
        self.fn = fn
        try:
            tree = ast.parse(source_of(fn))
        except (OSError, TypeError, SyntaxError) as e:
            self.why = f"no source: {e}"
            return
        fdef = tree.body[0]
        if not isinstance(fdef, ast.FunctionDef) or len(fdef.args.args) != 1:
            self.why = "not a one-parameter function"
            return
        param = fdef.args.args[0].arg
        body = [s for s in fdef.body if not (isinstance(s, ast.Expr) and isinstance(s.value, ast.Constant))]
        loops = [s for s in body if isinstance(s, ast.For)]
        if len(loops) != 1:
            self.why = f"{len(loops)} top-level for loops"
            return
        loop = loops[0]
        if not (isinstance(loop.iter, ast.Name) and loop.iter.id == param and isinstance(loop.target, ast.Name)
                and not loop.orelse):
            self.why = "loop does not iterate the parameter directly"
            return
        idx = body.index(loop)
        pre, post = body[:idx], body[idx + 1:]
        for s in pre + post + loop.body:
            for n in ast.walk(s):
                if isinstance(n, ast.Name) and n.id == param:
                    self.why = "parameter used outside the loop header"
                    return
                if isinstance(n, (ast.Break, ast.Continue)) and s in loop.body and False:
                    pass
        for n in ast.walk(loop):
            if isinstance(n, ast.Return):
                self.why = "return inside loop"
                return
        if not post or not isinstance(post[-1], ast.Return):
            self.why = "no final return"
            return
        state = sorted({n.id for s in pre for n in ast.walk(s)
                        if isinstance(n, ast.Name) and isinstance(n.ctx, ast.Store)})
        # every name stored in the loop body must be state or loop-local (assigned before use): we
        # conservatively add all stored names of the loop body that are also read in post/loop to state
        item = loop.target.id

        def args(names):
            return ast.arguments(posonlyargs=[], args=[ast.arg(a) for a in names], kwonlyargs=[],
                                 kw_defaults=[], defaults=[])
        ret = ast.Return(ast.Tuple([ast.Name(a, ast.Load()) for a in state], ast.Load()))
        mod = ast.Module(body=[
            ast.FunctionDef(name="__pre", args=args([]), body=pre + [ret], decorator_list=[]),
            ast.FunctionDef(name="__step", args=args(state + [item]), body=copy.deepcopy(loop.body) + [ret],
                            decorator_list=[]),
            ast.FunctionDef(name="__post", args=args(state), body=post, decorator_list=[])], type_ignores=[])
        conv = Conv(False)
        mod = conv.visit(mod)
        ast.fix_missing_locations(mod)
        g = dict(fn.__globals__)
        g['__pvx'] = sym
        for name, val in list(g.items()):      # constant integer tables (table-driven CRC): readable with a symbolic index
            if isinstance(val, (list, tuple)) and 16 <= len(val) <= 1024 and all(isinstance(x, int) and not isinstance(x, bool) for x in val):
                g[name] = sym.IntTable(val)
        try:
            exec(compile(mod, f"<pvx fold {fn.__qualname__}>", "exec"), g)
        except Exception as e:  # pragma: no cover
            self.why = f"compile failed: {e}"
            return
        self.pre, self.step, self.post = g['__pre'], g['__step'], g['__post']
        self.state = state
        self.item = item
        self.ifs = conv.count
        self.ok = True
