"""Structured symbolic streams: sequences of self-delimiting items (RTCM3 frames, NMEA sentences, UBX frames, inert noise)
with an independent list of the frames put in.  Used by C02, C05, C11, C17."""
import z3

from . import sym, msgdrv
from .sym import SymBytes

KINDS = ('R0', 'R2', 'R3', 'R19', 'N', 'U0', 'U2', 'X1', 'X2')
NMEA_SECOND = b"VMPBDILGFSHREYACZTW"


class Item:
    def __init__(self, kind, elems, start, frame=False, payload_len=None, crc=None):
        self.kind, self.elems, self.start, self.frame, self.payload_len, self.crc = kind, elems, start, frame, payload_len, crc

    @property
    def end(self):
        return self.start + len(self.elems)


def frame_item(eng, i, plen, ident, tag="p", filler=False):
    """one RTCM3 frame with symbolic payload (message number fixed by assumption) and symbolic CRC bytes"""
    crc = sym.symbytes(f"c{i}_", 3)
    if plen == 0:
        pay = []
    elif filler and plen > 40:
        head = sym.symbytes(f"{tag}{i}_", 8)
        tail = sym.symbytes(f"{tag}{i}t_", 4)
        pay = head.e + [0x55] * (plen - 12) + tail.e
        eng.assume(msgdrv.fterm(SymBytes(head.e).term(), 64, 0, 12) == ident)
    else:
        pb = sym.symbytes(f"{tag}{i}_", plen)
        pay = pb.e
        if plen >= 2:
            eng.assume(msgdrv.fterm(pb.term(), 8 * plen, 0, 12) == ident)
    return [0xD3, plen >> 8, plen & 0xFF] + pay + crc.e


def make_item(eng, kind, i):
    """returns (elems, is_frame, payload_len)"""
    if kind == 'R0':
        return frame_item(eng, i, 0, 0), True, 0
    if kind == 'R2':
        return frame_item(eng, i, 2, 4072), True, 2
    if kind == 'R3':
        return frame_item(eng, i, 3, 1070), True, 3
    if kind == 'R4':
        return frame_item(eng, i, 4, 999), True, 4
    if kind == 'D5':
        # frame announcing an implemented type (1005) with a payload too short to decode: only ever used as a DAMAGED frame
        return frame_item(eng, i, 5, 1005), True, 5
    if kind == 'R19':
        return frame_item(eng, i, 19, 1005), True, 19
    if kind == 'Rmax':
        return frame_item(eng, i, 1023, 4072, filler=True), True, 1023
    if kind == 'N':
        t = sym.symbytes(f"t{i}_", 1)
        body = sym.symbytes(f"n{i}_", 3)
        eng.assume(z3.Or(*[sym.byte_term(t.e[0]) == c for c in NMEA_SECOND]))
        for b in body.e:
            eng.assume(sym.byte_term(b) != 0x0A)
        return [0x24] + t.e + body.e + [13, 10], False, None
    if kind in ('U0', 'U1', 'U2'):
        n = int(kind[1])
        u = sym.symbytes(f"u{i}_", 2)
        v = sym.symbytes(f"v{i}_", n + 2)   # payload + 2 checksum bytes, fully free (may equal sync bytes)
        return [0xB5, 0x62] + u.e + [n, 0] + v.e, False, None
    if kind == 'UL':
        # long UBX frame (257 payload bytes, length needs both bytes): 4 free bytes (may look like sync/headers) in inert filler
        u = sym.symbytes(f"u{i}_", 2)
        v = sym.symbytes(f"v{i}_", 4)
        return [0xB5, 0x62] + u.e + [1, 1] + [0x55] * 3 + v.e + [0x55] * 250 + [0x55, 0x55], False, None
    if kind == 'UX':
        # UBX frame with a 1030-byte payload (RXM-RAWX size class): four free bytes near its end may look like a frame header
        u = sym.symbytes(f"u{i}_", 2)
        v = sym.symbytes(f"v{i}_", 4)
        return [0xB5, 0x62] + u.e + [0x06, 0x04] + [0x55] * 1016 + v.e + [0x55] * 10 + [0x55, 0x55], False, None
    if kind in ('X1', 'X2'):
        x = sym.symbytes(f"x{i}_", int(kind[1]))
        for b in x.e:
            eng.assume(z3.And(b.t != 0xD3, b.t != 0xB5, b.t != 0x24))
        return list(x.e), False, None
    raise ValueError(kind)


def build(eng, seq):
    """returns (SymBytes data, [Item])"""
    data = []
    items = []
    for i, k in enumerate(seq):
        if k == 'T':
            # the previous frame once more, byte for byte (same checksum bytes)
            prev = [it for it in items if it.frame][-1]
            items.append(Item(k, list(prev.elems), len(data), True, prev.payload_len))
            data += list(prev.elems)
            continue
        if k == 'S':
            # the same header and payload as the previous frame (a re-broadcast), with its own three checksum bytes
            prev = [it for it in items if it.frame][-1]
            e, isf, pl = list(prev.elems[:-3]) + sym.symbytes(f"c{i}_", 3).e, True, prev.payload_len
            items.append(Item(k, e, len(data), isf, pl))
            data += e
            continue
        e, isf, pl = make_item(eng, k, i)
        items.append(Item(k, e, len(data), isf, pl))
        data += e
    return SymBytes(data), items


class CrcPolicy:
    """hook for rdrdrv.CrcRecorder: when the real code computes the CRC over exactly one of the designated frames, assume the
    result zero (valid frame) or non-zero (damaged frame) instead of forking"""

    def __init__(self, eng, items, damaged=()):
        self.eng = eng
        self.frames = [(it, (idx in damaged)) for idx, it in enumerate(x for x in items if x.frame)]
        self.hits = {}

    def __call__(self, arg, result):
        if isinstance(result, int):
            return
        for it, dmg in self.frames:
            if len(arg) == len(it.elems) and sym.same_bytes(list(arg), it.elems):
                self.eng.assume(result.t != 0 if dmg else result.t == 0)
                self.hits[it.start] = self.hits.get(it.start, 0) + 1
                return
