"""C06 — fields are never read past the end of the payload.
(a) directed truncation: every structure of C03, every cut length below the needed size: every path must raise;
(b) free mode: on every success path the oracle layout for the counters of that path fits into the payload."""
import random

import z3

from . import sym, msgdrv, structs, oracle_layout as ol
from .core import JobResult

META = {
    "level": "model_checking",
    "functions": ["pyrtcm.rtcmmessage.RTCMMessage.__init__", "._do_attributes", "._set_attribute*", "._getsatcellmaps", ".identity"],
    "transforms": ["if-conversion of RTCMMessage._set_attribute_single", "predication of RTCMMessage._getsatcellmaps"],
    "shims": ["int", "bin (popcount)", "chr"],
    "bounds": {
        "quick": "every C03-quick structure of every defined identity; cut lengths: all if <= 24 cuts, else the last 8 bytes plus a seeded "
                 "sample of 16 cuts; truncated payload bytes all symbolic; free mode: every defined identity, payload lengths 2..12, counters 0..2 + one beyond",
        "thorough": "C03-thorough structures except counters at their maximum and MSM shapes above 12 cells (MSM: symbolic mask positions up to 3 cells, larger shapes with seeded positions), every cut length if <= 96 cuts else the last 24 bytes plus 72 sampled cuts (MSM: 48 / 16 + 32); free mode lengths 2..28"},
    "outside": "structures outside the C03 bound; cuts inside the identity header (C04)",
    "assumptions": ["structure fields that still lie inside the truncated payload keep the values of the complete message"],
}
WALL_BUDGET = {"quick": 900, "thorough": 3000}


def jobs(tier, seed):
    out = [('cut', ident, tier, seed) for ident in structs.all_identities() if structs.wellformed(ident)]
    out += [('free', ident, tier, seed) for ident in structs.all_identities() if structs.wellformed(ident)]
    ids = [i for i in structs.all_identities() if structs.wellformed(i)]
    # cheap history jobs first (a counterexample is decisive and stops the run early)
    out = [('hist', ids[i:i + 12], tier, seed) for i in range(0, len(ids), 12)] + out
    return out


def cuts_for(need, minlen, tier, rnd, msm=False):
    allc = list(range(need - 1, minlen - 1, -1))
    cap, tailn, samp = (24, 8, 16) if tier == 'quick' else (48, 16, 32) if msm else (96, 24, 72)
    if len(allc) <= cap:
        return allc
    last = allc[:tailn]
    rest = allc[tailn:]
    return last + sorted(rnd.sample(rest, min(samp, len(rest))), reverse=True)


def run_cut(ident, tier, seed, res):
    from pyrtcm.rtcmmessage import RTCMMessage
    rnd = random.Random(seed * 1000003 + hash(ident) % 65536)
    minlen = 3 if ident.startswith("4076") else 2
    for st in structs.structures(ident, tier, seed):
        if tier != 'quick' and (st.get('mode', ('',))[0] == 'maxone' or st.get('nsat', 0) * st.get('nsig', 0) > 12):
            continue      # thorough: the 255-item and the 15+-cell structures of C03-thorough are left to C03 (each truncation of them costs a full decode)
        if st.get('maskmode') not in ('value', 'high') and (st.get('nsat', 0) >= 2 if tier == 'quick' else st.get('nsat', 0) * st.get('nsig', 0) >= 4):
            continue      # symbolic mask positions only up to 1x1 (quick) / 3 cells (thorough) for truncation: positions do not move field boundaries
        try:
            d0 = msgdrv.Directed(ident, structs.chooser(st), spare=0)
        except ol.BadDefinition:
            return
        if not structs.fits(d0.total):
            continue
        res.count('structures')
        for cut in cuts_for(d0.need, minlen, tier, rnd, msm='nsat' in st):
            d = msgdrv.Directed(ident, structs.chooser(st), length=cut)
            eng = sym.Engine(max_paths=64, conc_limit=8)

            def fn():
                p = d.build(eng)
                return RTCMMessage(payload=p)
            raised = 0
            for path in eng.explore(fn):
                res['obligations'] += 1
                if path.kind == 'exc':
                    res['discharged'] += 1
                    raised += 1
                    if len(res['witnesses']) < 2 and eng.check3() == 'sat':
                        # reachability witness: a concrete truncated payload of this path must be rejected by the real code
                        res['witnesses'].append({'kind': 'construct', 'payload': d.payload_from_model(eng.model()).hex(), 'checks': ['overrun', 'total']})
                elif path.kind == 'ret':
                    res['refuted'] += 1
                    if eng.check3() == 'sat':
                        res['cex'].append({'kind': 'construct', 'payload': d.payload_from_model(eng.model()).hex(),
                                           'checks': ['overrun'], 'ident': ident, 'spec': st, 'cut': cut, 'need': d0.need,
                                           'dedup': f"{ident}:{st}:{cut}"})
                elif path.kind == 'abort':
                    res['obligations'] -= 1
                else:
                    res['inconclusive'].append(f"{ident} {st} cut {cut}: {path.kind} {path.value}")
            res.absorb_engine(eng)
            res.count('cuts')
        if not res['samples']:
            res['samples'].append({'identity': ident, 'structure': st, 'needed_bytes': d0.need,
                                   'cuts': cuts_for(d0.need, minlen, tier, random.Random(0))[:12]})


def run_free(ident, tier, seed, res):
    """free mode: identity and length fixed, everything else symbolic; success paths must fit"""
    from pyrtcm.rtcmmessage import RTCMMessage
    minlen = 3 if ident.startswith("4076") else 2
    lengths = range(minlen, 13) if tier == 'quick' else range(minlen, 29)
    num = int(ident[:4])
    for L in lengths:
        eng = sym.Engine(max_paths=400, conc_limit=4, conc_small=3)
        H = {}

        def fn():
            p = sym.symbytes("p", L)
            H['p'] = p
            P = p.term()
            H['P'] = P
            eng.assume(msgdrv.fterm(P, 8 * L, 0, 12) == num)
            if "_" in ident:
                eng.assume(msgdrv.fterm(P, 8 * L, 15, 8) == int(ident[5:]))
            return RTCMMessage(payload=p)
        for path in eng.explore(fn):
            if path.kind == 'ret':
                for lay, extra in msgdrv.layouts_for_path(eng, ident, H['P'], 8 * L):
                    res['obligations'] += 1
                    if lay == 'more':
                        res['obligations'] -= 1
                        res['trunc'].append(('oracle structures > 6', ident, L))
                        break
                    if lay == 'overrun':
                        res['refuted'] += 1
                        if eng.check3() == 'sat':
                            pl = bytes(eng.model().eval(sym.byte_term(e), model_completion=True).as_long() for e in H['p'].e)
                            res['cex'].append({'kind': 'construct', 'payload': pl.hex(), 'checks': ['overrun'], 'ident': ident,
                                               'dedup': f"free:{ident}:{L}"})
                    elif isinstance(lay, Exception):
                        res['obligations'] -= 1
                    else:
                        res['discharged'] += 1
            elif path.kind in ('exc', 'abort'):
                pass
            else:
                res['inconclusive'].append(f"free {ident} L={L}: {path.kind} {path.value}")
        res.absorb_engine(eng)
        # conc_limit truncations are the stated counter bound, not a defect of the run
        res['trunc'] = [t for t in res['trunc'] if t and t[0] != 'conc_limit']
    res.count('free_lengths', len(lengths))


def run_hist(ids, tier, seed, res):
    """a complete message of the type parsed first, then a truncated one of the same type in the same process: must still be rejected"""
    from pyrtcm.rtcmmessage import RTCMMessage
    for ident in ids:
        st = structs.structures(ident, 'quick', seed)
        st = st[1] if len(st) > 1 else st[0]
        try:
            d0 = msgdrv.Directed(ident, structs.chooser(st), spare=0, pname="a")
        except ol.BadDefinition:
            continue
        minlen = 3 if ident.startswith("4076") else 2
        cuts = sorted({d0.need - 1, max(minlen, d0.need - 3), max(minlen, d0.need // 2), minlen})
        for cut in cuts:
            if cut >= d0.need:
                continue
            dfull = msgdrv.Directed(ident, structs.chooser(st), spare=0, pname="a")
            dcut = msgdrv.Directed(ident, structs.chooser(st), length=cut, pname="p")
            eng = sym.Engine(max_paths=32, conc_limit=8)
            H = {}

            def fn():
                pa = dfull.build(eng)
                H['pa'] = pa
                RTCMMessage(payload=pa)
                return RTCMMessage(payload=dcut.build(eng))
            for path in eng.explore(fn):
                if path.kind == 'abort':
                    continue
                res['obligations'] += 1
                if path.kind == 'exc':
                    res['discharged'] += 1
                elif path.kind == 'ret':
                    res['refuted'] += 1
                    if eng.check3() == 'sat':
                        m = eng.model()
                        res['cex'].append({'kind': 'construct', 'history': [dfull.payload_from_model(m).hex()], 'payload': dcut.payload_from_model(m).hex(),
                                           'checks': ['overrun'], 'ident': ident, 'why': f"{ident}: truncated to {cut} bytes accepted after a complete message of the same type",
                                           'dedup': f"hist:{ident}"})
                else:
                    res['obligations'] -= 1
                    res['inconclusive'].append(f"hist {ident} cut {cut}: {path.kind} {str(path.value)[:60]}")
            res.absorb_engine(eng)
            res.count('hist_cuts')


def run_job(spec):
    mode, ident, tier, seed = spec
    msgdrv.install()
    res = JobResult(f"{mode}:{ident if isinstance(ident, str) else ident[0]}")
    if mode == 'hist':
        run_hist(ident, tier, seed, res)
        res['samples'].append({'history_truncation': ident[:3]})
        return res
    if mode == 'cut':
        run_cut(ident, tier, seed, res)
    else:
        run_free(ident, tier, seed, res)
    return res


def vacuity(tier, results, counters):
    errs = []
    if counters.get('cuts', 0) < 500:
        errs.append(f"only {counters.get('cuts', 0)} truncations explored")
    return errs
