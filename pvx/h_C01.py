"""C01 — the reader delivers only intact, exactly-delimited frames (validation on), whatever surrounds them and
whatever short / empty reads the stream injects."""
import z3

from . import sym, shims, msgdrv, rdrdrv, structs
from .core import JobResult
from .sym import SymBytes

META = {
    "level": "model_checking",
    "functions": ["pyrtcm.rtcmreader.RTCMReader.__init__", ".__next__", ".read", "._parse_rtcm3", "._parse_ubx", "._parse_nmea",
                  "._read_bytes", "._read_line", "._do_error", ".parse", "pyrtcm.rtcmmessage.RTCMMessage.*",
                  "pyrtcm.rtcmhelpers.calc_crc24q (if-converted)"],
    "transforms": ["if-conversion of calc_crc24q and RTCMMessage._set_attribute_single"],
    "shims": ["SymStream file double with short/empty read faults", "NMEA_HDR membership as one decision", "int", "logging disabled",
              "calc_crc24q call recorder (argument/result terms)"],
    "bounds": {
        "quick": "every byte stream of every length 0..8 (all bytes symbolic), error modes 0/1/2, <=1 injected short/empty read at lengths <=5; "
                 "framed templates noise(<=2) | frame(payload 2..4 or 19 bytes, payload+CRC symbolic) | tail(<=3), <=1 fault; message numbers per frame: "
                 "representatives (4072 unknown, 1005, 1070 reserved) by assumption or <=3 solver-chosen values",
        "thorough": "lengths 0..10, <=2 faults at lengths <=7, two-frame templates, payloads up to 19 bytes"},
    "outside": "socket templates: <=2 receive cuts and one injected timeout/OS error; streams longer than the bound that are not template instances; more faults than the bound; CRC-24Q correctness of the recorded "
               "CRC result term (C08, assume-guarantee)",
    "assumptions": ["CRC clause: a recorded calc_crc24q call on exactly the returned bytes whose result the path condition forces to 0; "
                    "that this result is CRC-24Q is C08; each path's concrete witness is re-validated with an independent CRC"],
}
WALL_BUDGET = {"quick": 900, "thorough": 5400}
REPR_IDS = (4072, 1005, 1070)


def jobs(tier, seed):
    out = []
    maxn = 8 if tier == 'quick' else 10
    for n in range(0, maxn + 1):
        for mode in (0, 1, 2):
            if tier == 'quick' and n >= 7 and mode != 1 + (n % 2):
                continue
            out.append(('free', n, mode, 0))
    for n in range(1, 6 if tier == 'quick' else 8):
        out.append(('free', n, 1, 1))
        if tier != 'quick':
            out.append(('free', n, 2, 2 if n <= 5 else 1))
    if tier == 'quick':
        tm = [(0, 2, 0), (1, 2, 0), (0, 3, 1), (1, 3, 1), (2, 2, 0), (0, 4, 2), (1, 4, 0), (0, 2, 3), (2, 3, 1)]
    else:
        tm = [(a, b, c) for a in (0, 1, 2) for b in (2, 3, 4) for c in (0, 1, 3)]
    for i, (noise, pl, tail) in enumerate(tm):
        out.append(('tmpl', noise, pl, tail, (i + seed) % 3, 1 if noise + tail <= 2 else 0, 4072))
    out.append(('twin', 6, 1))
    out += [('sock', 1, 2, 0, 1), ('sock', 0, 3, 1, 2)] + ([('sock', 1, 3, 1, 0), ('sock', 2, 2, 1, 1)] if tier != 'quick' else [])
    out.append(('twin', 19, 2))
    out.append(('big', 1030, 1))
    out.append(('big', 1029, 2))
    out.append(('tmpl', 1, 19, 1, 1, 0, 1005))
    out.append(('tmpl', 0, 2, 2, 2, 1, 1070))
    if tier != 'quick':
        out.append(('tmpl2', 1, 3, 1, 2, 1, 0))
        out.append(('tmpl2', 0, 2, 0, 19, 0, 1))
        out.append(('tmpl2', 2, 4, 2, 3, 2, 0))
    return out


def check_pairs(eng, run, data, res, mkcase, want_parsed=True):
    """C01 obligations for every returned pair on the current path"""
    prev = 0
    for raw, msg in run.pairs():
        res.count('pairs')
        res['obligations'] += 1
        if not isinstance(raw, (SymBytes, bytes, bytearray)):
            res['refuted'] += 1
            mkcase("raw is not bytes")
            return
        p = rdrdrv.locate(raw, data, prev)
        if p is None:
            res['refuted'] += 1
            mkcase("returned bytes are not a contiguous slice of the stream after the previous frame")
            return
        prev = p + len(raw)
        g = rdrdrv.frame_grammar(raw)
        r = eng.check3(z3.Not(g))
        if r == 'sat':
            res['refuted'] += 1
            mkcase("frame grammar violated", model=eng.model())
            return
        if r != 'unsat':
            res['inconclusive'].append("grammar: unknown")
            return
        z = rdrdrv.crc_forced_zero(eng, run, raw)
        if z is not True:
            res['refuted'] += 1
            mkcase("no CRC check forced to zero over exactly the returned bytes", want_bad_crc=raw)
            return
        if want_parsed:
            if msg is None or not sym.same_bytes(list(msg.payload), list(raw[3:len(raw) - 3])):
                res['refuted'] += 1
                mkcase("parsed payload is not the frame minus header and trailer")
                return
        res['discharged'] += 1


def run_job(spec):
    shims.install()
    res = JobResult(str(spec))
    kind = spec[0]
    H = {}
    if kind == 'free':
        _, n, mode, faults = spec
        eng = sym.Engine(max_paths=60000, conc_limit=3, conc_small=0)
        eng.conc_prefer = [4072, 1005]

        def fn():
            data = sym.symbytes("s", n)
            H['data'] = data
            st = shims.SymStream(data, faults=faults)
            return rdrdrv.iterate(st, mode=mode, max_calls=3 * n + 8)
    elif kind == 'sock':
        # the same obligations over a socket: receive boundaries anywhere (<=2 cuts) and one TimeoutError/OSError; the caller keeps calling
        # read() after an end-of-data indication, so frames delivered after a timeout are checked too
        _, noise, pl, tail, mode = spec
        eng = sym.Engine(max_paths=60000, conc_limit=3, conc_small=0)
        eng.time_budget = 240

        def fn():
            from pyrtcm.rtcmreader import RTCMReader
            nz = sym.symbytes("n", noise)
            pay = sym.symbytes("p0_", pl)
            crc = sym.symbytes("c0_", 3)
            eng.assume(msgdrv.fterm(pay.term(), 8 * pl, 0, 12) == 4072)
            data = SymBytes(list(nz.e) + [0xD3, 0, pl] + pay.e + crc.e + list(sym.symbytes("t", tail).e))
            H['data'] = data
            sock = shims.SymSocket(data, maxcuts=2 if noise == 0 else 1, faults=1)
            run = rdrdrv.Run()
            rec = rdrdrv.CrcRecorder(rdrdrv.CrcSummary())
            shims.set_crc(rec)
            run.crc, run.stream = rec, sock
            sock.fault_seen = []
            try:
                rdr = RTCMReader(sock, quitonerror=mode, errorhandler=lambda e: None)
                for _ in range(len(data) + 6):
                    try:
                        raw, msg = rdr.read()
                    except rdrdrv.lib_errors() as e:
                        run.events.append(('exc', e))
                        continue
                    if raw is not None:
                        run.events.append(('pair', raw, msg))
                    elif sock.pos >= len(data) and len(rdr.datastream.buffer) == 0:
                        break
                run.end = 'stop'
                return run
            finally:
                shims.set_crc(rec.inner.direct)
                sock.close()
    elif kind == 'twin':
        # two different intact frames of equal length that share their three CRC bytes (a 2^-24 coincidence the solver simply assumes)
        _, pl, mode = spec
        eng = sym.Engine(max_paths=64, conc_limit=3, conc_small=0)

        def fn():
            num = 4072 if pl < 19 else 1005
            p, q, c = sym.symbytes("p", pl), sym.symbytes("q", pl), sym.symbytes("c", 3)
            for x in (p, q):
                eng.assume(msgdrv.fterm(x.term(), 8 * pl, 0, 12) == num)
            hdr = [0xD3, 0, pl]
            data = SymBytes(hdr + p.e + c.e + hdr + q.e + c.e)
            H['data'] = data

            def hook(arg, r):
                if not isinstance(r, int) and len(arg) == pl + 6:
                    eng.assume(r.t == 0)
            st = shims.SymStream(data, faults=0)
            return rdrdrv.iterate(st, mode=mode, max_calls=3 * len(data) + 8, crc_hook=hook)
    elif kind == 'big':
        # one maximum-size frame whose two length bytes are free: covers the 6 reserved bits and the 10-bit length
        _, T, mode = spec
        eng = sym.Engine(max_paths=4000, conc_limit=4, conc_small=0)
        eng.conc_prefer = [T - 6, 1023, 4072, 0]

        def fn():
            hdr = sym.symbytes("h", 2)
            crc = sym.symbytes("c", 3)
            for b in crc.e:   # trailer symbolic (CRC decided through the fold summary) but inert when re-scanned
                eng.assume(z3.And(b.t != 0xD3, b.t != 0xB5, b.t != 0x24, b.t != 0x0A))
            # concrete message number 4072 and inert filler: the header logic does not depend on them
            data = SymBytes([0xD3] + hdr.e + [0xFE, 0x80] + [0x55] * (T - 8) + crc.e)
            H['data'] = data
            st = shims.SymStream(data, faults=0)
            return rdrdrv.iterate(st, mode=mode, max_calls=3 * T + 8)
    else:
        if kind == 'tmpl':
            _, noise, pl, tail, mode, faults, ident = spec
            frames = [(pl, ident)]
            mid = 0
        else:
            _, noise, pl, mid, pl2, tail, mode = spec
            faults = 1 if pl2 < 10 else 0
            frames = [(pl, 4072), (pl2, 1005 if pl2 == 19 else 1070)]
        eng = sym.Engine(max_paths=60000, conc_limit=3, conc_small=0)

        def fn():
            nz = sym.symbytes("n", noise)
            if max(pl_ for pl_, _ in frames) > 8:
                for b in nz.e:   # long payloads: inert noise only (a false sync byte would desynchronise into 2.5^len paths)
                    eng.assume(z3.And(b.t != 0xD3, b.t != 0xB5, b.t != 0x24))
            parts = list(nz.e)
            for i, (plen, ident) in enumerate(frames):
                pay = sym.symbytes(f"p{i}_", plen)
                crc = sym.symbytes(f"c{i}_", 3)
                eng.assume(msgdrv.fterm(pay.term(), 8 * plen, 0, 12) == ident)
                parts += [0xD3, plen >> 8, plen & 0xFF] + pay.e + crc.e
                if i == 0 and len(frames) > 1:
                    parts += list(sym.symbytes("m", mid).e)
            parts += list(sym.symbytes("t", tail).e)
            data = SymBytes(parts)
            H['data'] = data
            st = shims.SymStream(data, faults=faults)
            return rdrdrv.iterate(st, mode=mode, max_calls=3 * len(parts) + 8)
    wit = 0
    for path in eng.explore(fn):
        if path.kind in ('abort',):
            continue
        if path.kind != 'ret':
            res['inconclusive'].append(f"{spec}: {path.kind} {str(path.value)[:100]}")
            continue
        run = path.value
        data = H['data']

        def concretise(model):
            if kind != 'twin':
                return rdrdrv.fix_crcs(model, data, run)
            # two intact frames with the SAME trailer: CRC-24Q is linear, so the last three payload bytes of the second frame are solved for
            from . import concrete
            raw = rdrdrv.model_bytes(model, data)
            n = spec[1] + 6
            f1 = bytearray(raw[:n])
            f1[-3:] = concrete.crc24q_ref(bytes(f1[:-3])).to_bytes(3, "big")
            f2 = bytearray(raw[n:2 * n])
            if bytes(f2[3:-3]) == bytes(f1[3:-3]):
                f2[5] ^= 0x5A
            z = concrete.crc24q_ref(bytes(f2[:-6]) + b"\0\0\0")
            f2[-6:-3] = concrete.state_preimage(z ^ int.from_bytes(f1[-3:], "big"))
            f2[-3:] = f1[-3:]
            return bytes(f1 + f2)

        def mkcase(why, model=None, want_bad_crc=None):
            if model is None and eng.check3() == 'sat':
                model = eng.model()
            if model is None:
                res['harness_errors'].append(f"{spec}: no model for '{why}'")
                return
            if kind == 'sock':
                res['cex'].append({'kind': 'sockstream', 'data': concretise(model).hex(), 'mode': spec[4], 'recv_log': list(run.stream.log), 'why': why,
                                   'dedup': f"sock:{why[:50]}"})
                return
            res['cex'].append({'kind': 'stream', 'data': concretise(model).hex(), 'mode': spec[2] if kind in ('free', 'big', 'twin') else mode,
                               'faults': {str(c): k for c, k in run.stream.fault_seen}, 'checks': ['c01'], 'why': why,
                               'dedup': f"{why[:50]}:{len(data)}"})
        check_pairs(eng, run, data, res, mkcase)
        if run.pairs() and wit < 4 and kind != 'sock' and eng.check3() == 'sat':
            wit += 1
            res['witnesses'].append({'kind': 'stream', 'data': concretise(eng.model()).hex(),
                                     'mode': spec[2] if kind in ('free', 'big', 'twin') else mode,
                                     'faults': {str(c): k for c, k in run.stream.fault_seen}, 'checks': ['c01']})
    res.absorb_engine(eng)
    res['trunc'] = [t for t in res['trunc'] if t and t[0] != 'conc_limit']
    res['samples'].append({'job': list(spec), 'paths': res['paths'], 'pairs_checked': res['counters'].get('pairs', 0)})
    if kind == 'twin':
        # concrete multi-frame streams (valid frames of a dozen types between NMEA / UBX / noise), replayed on the unmodified code: every
        # returned pair is checked AFTER the whole stream was read (a parsed object must not change when later frames are read)
        from . import concrete
        for sd in range(3):
            data_, exp_ = concrete.corpus_stream(sd + spec[1])
            res['witnesses'].append({'kind': 'stream', 'data': data_.hex(), 'mode': spec[2], 'checks': ['c01', 'c04', 'frames'],
                                     'expect_frames': [f.hex() for f in exp_]})
    return res


def vacuity(tier, results, counters):
    if counters.get('pairs', 0) < 10:
        return [f"only {counters.get('pairs', 0)} returned pairs checked"]
    return []
