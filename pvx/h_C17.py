"""C17 — reader options have only their documented effect (relational: differently configured readers over the same symbolic stream)."""
import z3

from . import sym, shims, msgdrv, rdrdrv, streams
from .core import JobResult
from .sym import SymBytes

META = {
    "level": "model_checking",
    "functions": ["pyrtcm.rtcmreader.RTCMReader.__init__", ".read", "._parse_rtcm3", ".parse (validate gate)", "RTCMMessage.*"],
    "transforms": ["if-conversion"],
    "shims": ["SymStream", "CRC policy / recorder", "NMEA_HDR one decision"],
    "bounds": {"quick": "14 stream templates of <=4 items (frames with 2/3/19/600/1023-byte payloads, NMEA, UBX, inert and FREE noise bytes); validate a free integer, parsed a "
                        "free boolean, error modes 0/1/2, label option 1/2; CRC bytes free when validation is off; every run compared inside one path with the reference run "
                        "(validate=1, parsed=True, correct checksums); 5 templates with one frame carrying a wrong checksum: the validating reader (mode 2) must return "
                        "exactly the other frames, the non-validating reader all of them",
               "thorough": "additionally all 2-item templates over 9 item kinds and four longer ones"},
    "outside": "streams outside the templates",
    "assumptions": ["reference run: the code's own CRC result over each generated frame assumed zero"],
}
WALL_BUDGET = {"quick": 900, "thorough": 3000}
TEMPLATES = [('R2',), ('R2', 'R3'), ('R19', 'N', 'R2'), ('N', 'R3', 'U2'), ('X2', 'R2'), ('R2', 'X1', 'R19'), ('U0', 'R2', 'R3'), ('R600',), ('Rmax', 'R2'),
             ('F2', 'R2'), ('R2', 'F2', 'R3'), ('F1', 'R3', 'F1'), ('R3', 'F2'), ('R0', 'R2'), ('M11', 'R2'), ('R3', 'M11')]


def jobs(tier, seed):
    out = []
    templates = list(TEMPLATES)
    if tier != 'quick':
        import itertools
        kinds = ('R2', 'R3', 'R19', 'N', 'U2', 'X1', 'F1', 'R0', 'M11')
        templates += [t for t in itertools.product(kinds, repeat=2) if t not in templates and any(k[0] in 'RM' for k in t)]
        templates += [('R2', 'N', 'R3', 'U2'), ('F1', 'R2', 'F1', 'R3'), ('R19', 'R19', 'R2'), ('M11', 'N', 'M11')]
    for i, t in enumerate(templates):
        out.append(('validate', t, i % 3, 1 + i % 2))
        out.append(('parsed', t, (i + 1) % 3, 1))
    out += [('static', 4072, 4), ('static', 1005, 19), ('static', 1077, 0), ('static', 4072, 600)]
    out += [('tworeaders', 0), ('tworeaders', 1)]
    out += [('damaged', ('R2', 'R4', 'R3'), 1), ('damaged', ('R4', 'R2'), 0), ('damaged', ('R3', 'D5', 'R2'), 1), ('damaged', ('R2', 'R19'), 1),
            ('damaged', ('R4', 'N', 'R2'), 0)]
    return out


def build(eng, seq):
    """like streams.build, with two more item kinds: F<n> = n completely free noise bytes, R600 = 600-byte frame"""
    data, items = [], []
    for i, k in enumerate(seq):
        if k.startswith('F'):
            e = sym.symbytes(f"f{i}_", int(k[1:])).e
            isf, pl = False, None
        elif k == 'M11':
            # an MSM frame (GPS MSM4) with one satellite and one signal at symbolic mask positions (so reserved IDs are among the cases)
            from . import h_C09
            d = h_C09.make_directed("1074", 1, 1, pname=f"m{i}_", spare=0)
            pay = d.build(eng)
            crc = sym.symbytes(f"c{i}_", 3)
            e, isf, pl = [0xD3, d.L >> 8, d.L & 0xFF] + pay.e + crc.e, True, d.L
        elif k == 'R600':
            e, isf, pl = streams.frame_item(eng, i, 600, 4072, filler=True), True, 600
        else:
            e, isf, pl = streams.make_item(eng, k, i)
        items.append(streams.Item(k, e, len(data), isf, pl))
        data += e
    return SymBytes(data), items


def attrs_equal(a, b):
    pa, pb = msgdrv.public_attrs(a), msgdrv.public_attrs(b)
    if list(pa) != list(pb) or a.identity != b.identity:
        return False
    for k in pa:
        ta, tb_ = sym.term_of(pa[k]), sym.term_of(pb[k])
        if ta or tb_:
            if len(ta) != len(tb_) or not all(x.eq(y) for x, y in zip(ta, tb_)):
                return False
        elif pa[k] != pb[k]:
            return False
    return True


def emit(eng, H, res, why, opts):
    from . import concrete
    if eng.check3() != 'sat':
        res['harness_errors'].append("no model for " + why)
        return
    m = eng.model()
    raw = bytearray(rdrdrv.model_bytes(m, H['data']))
    for it in H['items']:
        if it.frame:   # reference semantics: frames are valid; the option run gets wrong checksum bytes when validation is off
            body = bytes(raw[it.start:it.end - 3])
            raw[it.end - 3:it.end] = concrete.crc24q_ref(body).to_bytes(3, "big")
    c = {'kind': 'options', 'data': bytes(raw).hex(), 'frames': [[it.start, it.end] for it in H['items'] if it.frame], 'why': why, 'dedup': why[:50] + str(len(raw))}
    c.update(opts)
    for k, v in list(c.items()):
        if isinstance(v, sym.SymInt):
            c[k] = m.eval(v.t, model_completion=True).as_signed_long()
        elif isinstance(v, sym.SymBool):
            c[k] = bool(z3.is_true(m.eval(v.t, model_completion=True)))
    res['cex'].append(c)


def run_validate(spec, res):
    _, seq, mode, label = spec
    free_noise = any(k.startswith('F') for k in seq)
    eng = sym.Engine(max_paths=4000, conc_limit=3)
    eng.conc_prefer = [4072]
    eng.time_budget = 200
    H = {}

    def fn():
        data, items = build(eng, seq)
        H['data'], H['items'] = data, items
        v = sym.symint("v", 4)
        H['v'] = v
        eng.assume((v.t & 1) == 0)           # checksum bit clear (the other bits of validate are free)
        runA = rdrdrv.iterate(shims.SymStream(data), mode=mode, validate=v, labelmsm=label, max_calls=3 * len(data) + 8)
        pol = streams.CrcPolicy(eng, items)
        runB = rdrdrv.iterate(shims.SymStream(data), mode=mode, validate=1, labelmsm=label, max_calls=3 * len(data) + 8, crc_hook=pol)
        return runA, runB
    for path in eng.explore(fn):
        if path.kind == 'abort':
            continue
        res['obligations'] += 1
        if path.kind != 'ret':
            res['obligations'] -= 1
            res['inconclusive' if path.kind != 'exc' else 'harness_errors'].append(f"{spec}: {path.kind} {str(path.value)[:80]}")
            continue
        runA, runB = path.value
        bad = None
        pa, pb = runA.pairs(), runB.pairs()
        if runA.end != runB.end:
            bad = f"iteration ends differ: {runA.end!r} with validation off, {runB.end!r} with valid checksums"
        elif len(pa) != len(pb):
            bad = f"{len(pa)} frames with validation off, {len(pb)} with valid checksums"
        else:
            trailer_vars = set()
            for it in H['items']:
                if it.frame:
                    for e in it.elems[-3:]:
                        trailer_vars |= sym.vars_of(e.t) if not isinstance(e, int) else set()
            for (ra, ma), (rb, mb) in zip(pa, pb):
                if not sym.same_bytes(list(ra), list(rb)):
                    bad = "raw frames differ"
                elif (ma is None) != (mb is None) or (ma is not None and not attrs_equal(ma, mb)):
                    bad = "a frame decodes differently with validation off"
                elif ma is not None and not free_noise:
                    for val in msgdrv.public_attrs(ma).values():
                        for t in sym.term_of(val):
                            if sym.vars_of(t) & trailer_vars:
                                bad = "decoded attributes depend on the checksum bytes"
                if bad:
                    break
            if not bad and [e[0] for e in runA.events] != [e[0] for e in runB.events]:
                bad = "event sequences (frames / exceptions) differ"
        if bad:
            res['refuted'] += 1
            emit(eng, H, res, bad, {'option': 'validate', 'validate': H['v'], 'mode': mode, 'labelmsm': label})
        else:
            res['discharged'] += 1
            if len(res['witnesses']) < 1 and pa and eng.check3() == 'sat':
                n0 = len(res['cex'])
                emit(eng, H, res, "witness", {'option': 'validate', 'validate': H['v'], 'mode': mode, 'labelmsm': label})
                res['witnesses'] += res['cex'][n0:]
                del res['cex'][n0:]
        res.count('option_paths')
    res.absorb_engine(eng)
    res['trunc'] = [t for t in res['trunc'] if t and t[0] != 'conc_limit']


def run_parsed(spec, res):
    _, seq, mode, label = spec
    eng = sym.Engine(max_paths=4000, conc_limit=3)
    eng.conc_prefer = [4072]
    eng.time_budget = 200
    H = {}

    def fn():
        data, items = build(eng, seq)
        H['data'], H['items'] = data, items
        pz = sym.SymBool(z3.Bool("parsed"))
        H['pz'] = pz
        pol = streams.CrcPolicy(eng, items)
        runA = rdrdrv.iterate(shims.SymStream(data), mode=mode, validate=1, parsed=pz, labelmsm=label, max_calls=3 * len(data) + 8, crc_hook=pol)
        pol2 = streams.CrcPolicy(eng, items)
        runB = rdrdrv.iterate(shims.SymStream(data), mode=mode, validate=1, parsed=True, labelmsm=label, max_calls=3 * len(data) + 8, crc_hook=pol2)
        return runA, runB
    for path in eng.explore(fn):
        if path.kind == 'abort':
            continue
        res['obligations'] += 1
        if path.kind != 'ret':
            res['obligations'] -= 1
            res['inconclusive' if path.kind != 'exc' else 'harness_errors'].append(f"{spec}: {path.kind} {str(path.value)[:80]}")
            continue
        runA, runB = path.value
        on = eng.forced(H['pz'].t)
        bad = None
        # frames without a message number (payload < 2 bytes) cannot be parsed at all: with parsing on they are reported as errors, with parsing
        # off they come back raw.  The property speaks of frames that parse, so they are left out of the comparison (as in C02).
        pa = [x for x in runA.pairs() if len(x[0]) - 6 >= 2]
        pb = [x for x in runB.pairs() if len(x[0]) - 6 >= 2]
        if on is None:
            # the flag was never examined: then nothing may have been parsed ... or everything identical
            on = True
        exp_b = [(r, m) for r, m in pb]
        if on is False:
            # frames the parsing reader rejects for their CONTENT (undecodable) are still returned raw when parsing is off: compare on the
            # generated valid frames only, which the reference returns all
            if len(pa) != len(exp_b) or not all(sym.same_bytes(list(x[0]), list(y[0])) for x, y in zip(pa, exp_b)):
                bad = f"parsed=False returns {len(pa)} raw frames, parsed=True returns {len(exp_b)} (or content/order differs)"
            elif any(m is not None for _, m in pa):
                bad = "parsed=False returned a parsed object"
            elif runA.end != runB.end and not any(len(x[0]) - 6 < 2 for x in runA.pairs()):
                bad = f"iteration ends differ: {runA.end!r} vs {runB.end!r}"
        else:
            if len(pa) != len(pb) or not all(sym.same_bytes(list(x[0]), list(y[0])) and (x[1] is None) == (y[1] is None) for x, y in zip(pa, pb)):
                bad = "parsed=True (free flag) differs from parsed=True"
        if bad:
            res['refuted'] += 1
            emit(eng, H, res, bad, {'option': 'parsed', 'parsed': H['pz'], 'mode': mode, 'labelmsm': label})
        else:
            res['discharged'] += 1
            if len(res['witnesses']) < 1 and pa and on is False and eng.check3() == 'sat':
                n0 = len(res['cex'])
                emit(eng, H, res, "witness", {'option': 'parsed', 'parsed': False, 'mode': mode, 'labelmsm': label})
                res['witnesses'] += res['cex'][n0:]
                del res['cex'][n0:]
        res.count('option_paths')
    res.absorb_engine(eng)
    res['trunc'] = [t for t in res['trunc'] if t and t[0] != 'conc_limit']


def run_damaged(spec, res):
    """one frame of the stream carries a wrong checksum.  Reader A (validation off) must return every frame, reader B (validation on, errors
    logged, iteration continues) every frame but the damaged one - the same bytes taken for every frame, i.e. B's frames are A's minus one."""
    _, seq, dmg = spec
    eng = sym.Engine(max_paths=4000, conc_limit=3)
    eng.conc_prefer = [4072]
    eng.time_budget = 200
    H = {}

    def fn():
        data, items = build(eng, seq)
        H['data'], H['items'] = data, items
        runA = rdrdrv.iterate(shims.SymStream(data), mode=2, validate=0, max_calls=3 * len(data) + 8)
        pol = streams.CrcPolicy(eng, items, damaged=(dmg,))
        runB = rdrdrv.iterate(shims.SymStream(data), mode=2, validate=1, max_calls=3 * len(data) + 8, crc_hook=pol)
        return runA, runB
    for path in eng.explore(fn):
        if path.kind == 'abort':
            continue
        res['obligations'] += 1
        if path.kind != 'ret':
            res['obligations'] -= 1
            res['inconclusive' if path.kind != 'exc' else 'harness_errors'].append(f"{spec}: {path.kind} {str(path.value)[:80]}")
            continue
        runA, runB = path.value
        frames = [it for it in H['items'] if it.frame]
        # frames whose content cannot be decoded at all (D5: too short for its type) are errors for both readers
        expA = [it for it in frames if it.kind != 'D5']
        expB = [it for k, it in enumerate(frames) if k != dmg and it.kind != 'D5']
        bad = None
        for nm, run, exp in (("validation off", runA, expA), ("validation on", runB, expB)):
            got = run.pairs()
            if len(got) != len(exp) or not all(sym.same_bytes(list(g[0]), list(it.elems)) for g, it in zip(got, exp)):
                bad = f"{nm}: returned {len(got)} frames, the stream holds {len(exp)} that this reader must return (or their bytes differ)"
                break
            if run.end != 'stop':
                bad = f"{nm}: iteration ended with {run.end!r}"
                break
        if bad:
            res['refuted'] += 1
            if eng.check3() == 'sat':
                m = eng.model()
                from . import concrete
                raw = bytearray(rdrdrv.model_bytes(m, H['data']))
                k = 0
                for it in H['items']:
                    if it.frame:
                        good = concrete.crc24q_ref(bytes(raw[it.start:it.end - 3])).to_bytes(3, "big")
                        if k != dmg:
                            raw[it.end - 3:it.end] = good
                        elif bytes(raw[it.end - 3:it.end]) == good:
                            raw[it.end - 1] ^= 1
                        k += 1
                res['cex'].append({'kind': 'options', 'option': 'damaged', 'data': bytes(raw).hex(), 'damaged': dmg,
                                   'frames': [[it.start, it.end, it.kind != 'D5'] for it in H['items'] if it.frame], 'why': bad, 'dedup': f"damaged:{seq}:{bad[:30]}"})
        else:
            res['discharged'] += 1
        res.count('option_paths')
    res.absorb_engine(eng)
    res['trunc'] = [t for t in res['trunc'] if t and t[0] != 'conc_limit']


def run_static(spec, res):
    """RTCMReader.parse(f, validate=even) with arbitrary trailer == parse(f', validate=1) with the right trailer, term by term"""
    from pyrtcm.rtcmreader import RTCMReader
    from . import structs, h_C09
    _, num, plen = spec
    eng = sym.Engine(max_paths=64, conc_limit=8)
    H = {}

    def fn():
        if num == 1077:
            d = h_C09.make_directed("1077", 1, 1)
            pay = d.build(eng)
        else:
            from . import h_C07
            pay = h_C07.filler_payload(eng, "p", plen)
            eng.assume(msgdrv.fterm(SymBytes(pay.e[:2]).term(), 16, 0, 12) == num)
        n = len(pay)
        c1, c2 = sym.symbytes("c", 3), sym.symbytes("d", 3)
        hdr = [0xD3, n >> 8, n & 0xFF]
        v = sym.symint("v", 4)
        eng.assume((v.t & 1) == 0)
        H.update(pay=pay, c1=c1, v=v)
        a = RTCMReader.parse(SymBytes(hdr + pay.e + c1.e), validate=v)
        f2 = SymBytes(hdr + pay.e + c2.e)

        def hook(arg, r):
            if not isinstance(r, int):
                eng.assume(r.t == 0)
        rec = rdrdrv.CrcRecorder(rdrdrv.CrcSummary(), hook)
        shims.set_crc(rec)
        try:
            b = RTCMReader.parse(f2, validate=1)
        finally:
            shims.set_crc(rec.inner.direct)
        return a, b
    for path in eng.explore(fn):
        if path.kind == 'abort':
            continue
        res['obligations'] += 1
        if path.kind != 'ret':
            res['obligations'] -= 1
            if path.kind == 'exc':
                res['obligations'] += 1
                res['refuted'] += 1
                case_static(eng, H, res, f"raised {type(path.value).__name__}: {str(path.value)[:60]}")
            else:
                res['inconclusive'].append(f"{spec}: {path.kind}")
            continue
        a, b = path.value
        if attrs_equal(a, b) and sym.same_bytes(list(a.payload), list(b.payload)):
            res['discharged'] += 1
        else:
            res['refuted'] += 1
            case_static(eng, H, res, "parse with validation off differs from parse of the same payload with a right checksum")
        res.count('option_paths')
    res.absorb_engine(eng)


def case_static(eng, H, res, why):
    from . import concrete
    if eng.check3() != 'sat':
        res['harness_errors'].append("no model for " + why)
        return
    m = eng.model()
    pay = rdrdrv.model_bytes(m, H['pay'])
    hdr = bytes([0xD3, len(pay) >> 8, len(pay) & 0xFF])
    bad = hdr + pay + rdrdrv.model_bytes(m, H['c1'])
    good = hdr + pay
    good += concrete.crc24q_ref(good).to_bytes(3, "big")
    if bad == good:
        bad = bad[:-1] + bytes([bad[-1] ^ 1])
    res['cex'].append({'kind': 'parse', 'buffer': bad.hex(), 'validate': m.eval(H['v'].t, model_completion=True).as_long(), 'other': good.hex(),
                       'other_validate': 1, 'checks': ['same_as', 'total'], 'why': why, 'dedup': f"static:{len(pay)}:{why[:30]}"})


def run_two(spec, res):
    """two readers with different options alive at the same time (both constructed before either is read): each keeps its own options"""
    from pyrtcm.rtcmreader import RTCMReader
    _, order = spec
    eng = sym.Engine(max_paths=64, conc_limit=4)
    H = {}

    def fn():
        data, items = build(eng, ('R2', 'R3'))
        H['data'], H['items'] = data, items
        rec = rdrdrv.CrcRecorder(rdrdrv.CrcSummary())
        shims.set_crc(rec)
        try:
            sa, sb = shims.SymStream(data), shims.SymStream(data)
            if order == 0:
                ra = RTCMReader(sa, validate=0, quitonerror=0, labelmsm=2)
                rb = RTCMReader(sb, validate=1, quitonerror=0, labelmsm=1, parsed=False)
            else:
                rb = RTCMReader(sb, validate=1, quitonerror=0, labelmsm=1, parsed=False)
                ra = RTCMReader(sa, validate=0, quitonerror=0, labelmsm=2)
            outa, outb = [], []
            for _ in range(4):
                x = ra.read()
                if x[0] is None:
                    break
                outa.append(x)
            for _ in range(4):
                x = rb.read()
                if x[0] is None:
                    break
                outb.append(x)
            return outa, outb
        finally:
            shims.set_crc(rec.inner.direct)
    for path in eng.explore(fn):
        if path.kind == 'abort':
            continue
        res['obligations'] += 1
        if path.kind != 'ret':
            res['obligations'] -= 1
            res['inconclusive' if path.kind != 'exc' else 'harness_errors'].append(f"{spec}: {path.kind} {str(path.value)[:80]}")
            continue
        outa, outb = path.value
        frames = [it for it in H['items'] if it.frame]
        bad = None
        # validate=0 reader: both frames whatever their checksum bytes, parsed
        if len(outa) != len(frames) or not all(sym.same_bytes(list(r), it.elems) and m is not None for (r, m), it in zip(outa, frames)):
            bad = f"reader built with validate=0 returned {len(outa)} of {len(frames)} frames (another reader with validate=1 exists)"
        elif any(m is not None for _, m in outb):
            bad = "reader built with parsed=False returned a parsed object"
        if bad:
            res['refuted'] += 1
            emit(eng, H, res, bad, {'option': 'tworeaders', 'order': order, 'mode': 0})
        else:
            res['discharged'] += 1
        res.count('option_paths')
    res.absorb_engine(eng)


def run_job(spec):
    shims.install()
    res = JobResult(str(spec)[:70])
    {'validate': run_validate, 'parsed': run_parsed, 'static': run_static, 'tworeaders': run_two, 'damaged': run_damaged}[spec[0]](spec, res)
    if spec[0] in ('parsed', 'validate') and 'M11' in spec[1]:
        # concrete witnesses: MSM frames with awkward masks (reserved signal / unmapped satellite IDs) between ordinary frames
        from . import structs, concrete
        for j, pl in enumerate(structs.random_msm_cases("1074" if spec[0] == 'parsed' else "1117", 5, 9)):
            fr = b"\xd3" + len(pl).to_bytes(2, "big") + pl
            fr += concrete.crc24q_ref(fr).to_bytes(3, "big")
            tail = bytes.fromhex("d30002fe80bbfe86")
            data = fr + tail
            c = {'kind': 'options', 'data': data.hex(), 'frames': [[0, len(fr)], [len(fr), len(data)]], 'mode': spec[2], 'labelmsm': 2 if j % 4 == 3 else 1}
            c.update({'option': 'parsed', 'parsed': False} if spec[0] == 'parsed' else {'option': 'validate', 'validate': 0})
            res['witnesses'].append(c)
    res['samples'].append({'job': [str(x) for x in spec], 'paths': res['paths']})
    return res


def vacuity(tier, results, counters):
    if counters.get('option_paths', 0) < 30:
        return [f"only {counters.get('option_paths', 0)} option paths"]
    return []
