"""C18 — MSM and harmonic-coefficient array helpers agree with the flat attributes; other messages yield None, never an exception."""
import z3

from . import sym, msgdrv, structs, concrete, h_C09, oracle_layout as ol
from .core import JobResult

META = {
    "level": "model_checking",
    "functions": ["pyrtcm.rtcmhelpers.parse_msm", "pyrtcm.rtcmhelpers.parse_4076_201", "pyrtcm.rtcmmessage.RTCMMessage.ismsm", "constructor (as C09/C03)"],
    "transforms": ["predication of _getsatcellmaps", "if-conversion of _set_attribute_single"],
    "shims": ["int", "bin", "chr"],
    "bounds": {"quick": "parse_msm on every constellation once per MSM level group at (NSat,NSig) in {(0,0),(1,1),(2,2)} (positions symbolic, cell mask free); parse_4076_201 on "
                        "(layers-1, N-1, M-1) in 8 shapes incl. (0,15,15) = 153 cosine / 136 sine coefficients (three-digit indices); both helpers on all 4096 message "
                        "numbers and all 256 sub-types of 4076 (3-byte payloads) for the 'returns None, never raises' clause",
               "thorough": "all 49 MSM types, all (N,M) pairs with 3 layer counts"},
    "outside": "mask shapes above 2x2 with symbolic positions (C03 covers larger concrete shapes for the attributes themselves)",
    "assumptions": ["epoch field per constellation pinned in spec/msm.json"],
}
WALL_BUDGET = {"quick": 900, "thorough": 3000}


def jobs(tier, seed):
    out = []
    if tier == 'quick':
        for ci, b in enumerate(structs.MSM_BASES):
            for lvl in (1 + (ci + seed) % 7, 1 + (ci + seed + 3) % 7):
                out.append(('msm', str(b + lvl), ((0, 0), (1, 1), (2, 2))))
        for ident in ('1085', '1087'):      # the only types whose satellite block differs (DF419 instead of ExtSatInfo)
            if ('msm', ident, ((0, 0), (1, 1), (2, 2))) not in out:
                out.append(('msm', ident, ((1, 1),)))
        harm = [(0, 0, 0), (0, 1, 0), (0, 1, 1), (1, 2, 1), (2, 1, 1), (0, 15, 15), (0, 13, 8), (1, 9, 9)]
    else:
        for b in structs.MSM_BASES:
            for lvl in range(1, 8):
                out.append(('msm', str(b + lvl), ((0, 0), (1, 0), (1, 1), (2, 1), (2, 2))))
        harm = [(l, n, m) for l in (0, 1, 2) for n in range(0, 16, 3) for m in range(0, n + 1, 2)] + [(0, 15, 15), (0, 15, 14), (3, 15, 15)]
    out += [('harm', h) for h in harm] + [('harm', (1, 1, 1), 1), ('harm', (2, 2, 0), 2), ('harm', (1, 3, 3), -1)]
    out += [('others', hi) for hi in range(16)] + [('others4076',)]
    out += [('defined', i) for i in range(4)]
    return out


def emit(eng, payload_fn, res, why, checks=('helpers',), label=1, prefer=None):
    if (prefer is not None and eng.check3(prefer) == 'sat') or eng.check3() == 'sat':
        pl = payload_fn(eng.model())
        res['cex'].append({'kind': 'construct', 'payload': pl.hex(), 'labelmsm': label, 'checks': list(checks), 'why': why, 'dedup': why[:60]})
    else:
        res['harness_errors'].append("no model for " + why)


def same(a, b):
    if a is b:
        return True
    ta, tb_ = sym.term_of(a), sym.term_of(b)
    if ta or tb_:
        return type(a) is type(b) and len(ta) == len(tb_) and all(x.eq(y) for x, y in zip(ta, tb_))
    return type(a) is type(b) and a == b


def check_msm_helper(m, r, ident, eng):
    """list of mismatch strings between parse_msm(m) and the message's own attributes"""
    pub = msgdrv.public_attrs(m)
    t = ol.tables()
    bad = []
    if not (isinstance(r, tuple) and len(r) == 3):
        return [f"parse_msm returned {type(r).__name__}"]
    meta, sats, cells = r
    epoch = concrete.msm_spec()['epoch_field'][ident[:3]]
    want = {'identity': m.identity, 'station': pub.get('DF003'), 'epoch': pub.get(epoch), 'sats': pub.get(t['NSAT']), 'cells': pub.get(t['NCELL'])}
    for k, v in want.items():
        if k not in meta or not same(meta[k], v):
            bad.append(f"meta[{k!r}] is not the message's {k}")
    nsat = eng.unique(sym.SymInt.lift(pub[t['NSAT']]).t)
    ncell = eng.unique(sym.SymInt.lift(pub[t['NCELL']]).t)
    if nsat is None or ncell is None:
        return bad + ["NSat/NCell not determined on this path"]
    for arr, n, nm in ((sats, nsat, 'satellite'), (cells, ncell, 'cell')):
        if not isinstance(arr, list) or len(arr) != n:
            bad.append(f"{nm} array has {len(arr) if isinstance(arr, list) else '?'} entries, expected {n}")
            continue
        for i, ent in enumerate(arr, 1):
            suffix = "_%02d" % i
            mine = {k[:-len(suffix)]: v for k, v in pub.items() if k.endswith(suffix) and "_" not in k[:-len(suffix)].replace("DF001_", "")}
            for k, v in ent.items():
                if k + suffix not in pub or not same(pub[k + suffix], v):
                    bad.append(f"{nm} entry {i}: {k} is not attribute {k + suffix}")
    # every indexed attribute of the satellite / cell groups must appear in exactly one array
    idx_attrs = [k for k in pub if "_" in k and k.rsplit("_", 1)[1].isdigit() and len(k.rsplit("_", 1)[1]) >= 2]
    seen = set()
    for i, ent in enumerate(sats, 1):
        seen |= {f"{k}_{i:02d}" for k in ent}
    cseen = set()
    for i, ent in enumerate(cells, 1):
        cseen |= {f"{k}_{i:02d}" for k in ent}
    for k in idx_attrs:
        base = k.rsplit("_", 1)[0]
        if base.startswith("CELL") or base in ("DF400", "DF401", "DF402", "DF403", "DF404", "DF405", "DF406", "DF407", "DF408", "DF420"):
            if k not in cseen:
                bad.append(f"cell attribute {k} missing from the cell array")
        elif k not in seen:
            bad.append(f"satellite attribute {k} missing from the satellite array")
    return bad


def run_msm(spec, res):
    from pyrtcm.rtcmmessage import RTCMMessage
    from pyrtcm.rtcmhelpers import parse_msm, parse_4076_201
    _, ident, shapes = spec
    if not structs.wellformed(ident):
        return
    for (k, g) in shapes:
        d = h_C09.make_directed(ident, k, g)
        eng = sym.Engine(max_paths=64, conc_limit=32)
        eng.query_timeout_ms = 120000

        def fn():
            m = RTCMMessage(payload=d.build(eng))
            return m, parse_msm(m), parse_4076_201(m)
        for path in eng.explore(fn):
            if path.kind == 'abort':
                continue
            res['obligations'] += 1
            if path.kind == 'exc':
                res['refuted'] += 1
                emit(eng, d.payload_from_model, res, f"helper or constructor raised {type(path.value).__name__}: {str(path.value)[:80]}")
                continue
            if path.kind != 'ret':
                res['obligations'] -= 1
                res['inconclusive'].append(f"{spec}: {path.kind} {str(path.value)[:80]}")
                continue
            m, r, r2 = path.value
            bad = check_msm_helper(m, r, ident, eng)
            if r2 is not None:
                bad.append("parse_4076_201 returned something for an MSM message")
            if bad:
                res['refuted'] += 1
                emit(eng, d.payload_from_model, res, "; ".join(bad[:3]))
            else:
                res['discharged'] += 1
                if len(res['witnesses']) < 2 and eng.check3() == 'sat':
                    res['witnesses'].append({'kind': 'construct', 'payload': d.payload_from_model(eng.model()).hex(), 'checks': ['helpers', 'total']})
            res.count('msm_paths')
        res.absorb_engine(eng)
    for pl in structs.random_msm_cases(ident, 7, 4):
        res['witnesses'].append({'kind': 'construct', 'payload': pl.hex(), 'checks': ['helpers', 'total']})
    # history: helpers on a message with empty masks first, then on an ordinary one of the same type (one process)
    for (ka, ga) in ((1, 1), (0, 1)):
        da = h_C09.make_directed(ident, ka, ga, pname="q")
        db = h_C09.make_directed(ident, 1, 1, pname="p")
        eng = sym.Engine(max_paths=32, conc_limit=8)
        eng.query_timeout_ms = 60000

        def fn():
            pa = da.build(eng)
            if ka * ga:
                cf = da.layout.by_name()["DF396"]
                eng.assume(msgdrv.fterm(da.P, da.nb, cf.off, ka * ga) == 0)      # satellites present, no cell
            ma = RTCMMessage(payload=pa)
            parse_msm(ma)
            mb = RTCMMessage(payload=db.build(eng))
            return mb, parse_msm(mb)
        for path in eng.explore(fn):
            if path.kind == 'abort':
                continue
            res['obligations'] += 1
            if path.kind != 'ret':
                res['obligations'] -= 1
                if path.kind == 'exc':
                    res['obligations'] += 1
                    res['refuted'] += 1
                    emit_seq(eng, da, db, res, f"raised {type(path.value).__name__} on the second message")
                else:
                    res['inconclusive'].append(f"{spec} seq: {path.kind} {str(path.value)[:80]}")
                continue
            mb, r = path.value
            bad = check_msm_helper(mb, r, ident, eng)
            if bad:
                res['refuted'] += 1
                emit_seq(eng, da, db, res, "after a message with empty masks: " + "; ".join(bad[:2]))
            else:
                res['discharged'] += 1
            res.count('seq_paths')
        res.absorb_engine(eng)


def emit_seq(eng, da, db, res, why):
    if eng.check3() == 'sat':
        m = eng.model()
        res['cex'].append({'kind': 'construct', 'history': [da.payload_from_model(m).hex()], 'history_helpers': True,
                           'payload': db.payload_from_model(m).hex(), 'checks': ['helpers'], 'why': why, 'dedup': f"seq:{da.ident}:{why[:40]}"})
    else:
        res['harness_errors'].append("no model for " + why)


def run_harm(spec, res):
    from pyrtcm.rtcmmessage import RTCMMessage
    from pyrtcm.rtcmhelpers import parse_msm, parse_4076_201
    h = spec[1]
    vary = spec[2] if len(spec) > 2 else 0
    d = msgdrv.Directed("4076_201", structs.chooser(dict(harm=h, harmvary=vary)), spare=1)
    if not structs.fits(d.total):
        return
    eng = sym.Engine(max_paths=8, conc_limit=4)

    def fn():
        m = RTCMMessage(payload=d.build(eng))
        return m, parse_4076_201(m), parse_msm(m)
    for path in eng.explore(fn):
        if path.kind == 'abort':
            continue
        res['obligations'] += 1
        if path.kind != 'ret':
            if path.kind == 'exc':
                res['refuted'] += 1
                emit(eng, d.payload_from_model, res, f"raised {type(path.value).__name__}: {str(path.value)[:80]}")
            else:
                res['obligations'] -= 1
                res['inconclusive'].append(f"{spec}: {path.kind} {str(path.value)[:80]}")
            continue
        m, r, r1 = path.value
        pub = msgdrv.public_attrs(m)
        bad = []
        layers = h[0] + 1
        vals = {name: v for (name, off, w, what, v) in d.layout.struct}

        def counts(L):
            n, mm = vals[f"IDF037_{L:02d}"] + 1, vals[f"IDF038_{L:02d}"] + 1
            nc_ = (n + 1) * (n + 2) // 2 - (n - mm) * (n - mm + 1) // 2
            return nc_, nc_ - (n + 1)
        if r1 is not None:
            bad.append("parse_msm returned something for 4076_201")
        if not isinstance(r, dict) or len(r) != layers:
            bad.append(f"{len(r) if isinstance(r, dict) else type(r).__name__} layers, expected {layers}")
        else:
            for li, (key, ent) in enumerate(sorted(r.items())):
                L = li + 1
                if not same(ent.get("Layer Height"), pub.get("IDF036_%02d" % L)):
                    bad.append(f"layer {L}: height is not IDF036_{L:02d}")
                nc, ns = counts(L)
                for field, cname, cnt in (("IDF039", "Cosine Coefficients", nc), ("IDF040", "Sine Coefficients", ns)):
                    arr = ent.get(cname)
                    exp = [pub.get(f"{field}_{L:02d}_{i:02d}") for i in range(1, cnt + 1)]
                    if None in exp:
                        bad.append(f"layer {L}: message lacks some {field} attributes (C03)")
                    elif not isinstance(arr, list) or len(arr) != cnt or not all(same(a, b) for a, b in zip(arr, exp)):
                        bad.append(f"layer {L}: {cname} ({len(arr) if isinstance(arr, list) else '?'} values) differ from the {cnt} decoded {field} attributes in order")
        # a model with pairwise different coefficient values (an order mix-up is invisible on equal values)
        distinct = z3.And(*[msgdrv.fterm(d.P, d.nb, f.off, f.w) == ((j * 37 + 11) & ((1 << f.w) - 1))
                            for j, f in enumerate(d.layout.fields) if f.key in ("IDF039", "IDF040", "IDF036")] or [z3.BoolVal(True)])
        if bad:
            res['refuted'] += 1
            emit(eng, d.payload_from_model, res, "; ".join(bad[:3]), prefer=distinct)
        else:
            res['discharged'] += 1
            if len(res['witnesses']) < 1 and (eng.check3(distinct) == 'sat' or eng.check3() == 'sat'):
                res['witnesses'].append({'kind': 'construct', 'payload': d.payload_from_model(eng.model()).hex(), 'checks': ['helpers', 'total']})
        res.count('harm_paths')
    res.absorb_engine(eng)


def run_others(spec, res):
    """all message numbers: for anything that is not an implemented MSM / 4076_201 both helpers return None and do not raise"""
    from pyrtcm.rtcmmessage import RTCMMessage
    from pyrtcm.rtcmhelpers import parse_msm, parse_4076_201
    t = ol.tables()
    L = 3
    eng = sym.Engine(max_paths=5000, conc_limit=4200)
    H = {}

    def fn():
        p = sym.symbytes("p", L)
        H['p'] = p
        if spec[0] == 'others':
            eng.assume(z3.Extract(7, 4, sym.byte_term(p.e[0])) == spec[1])
        else:
            eng.assume(msgdrv.fterm(p.term(), 8 * L, 0, 12) == 4076)
        try:
            m = RTCMMessage(payload=p)
        except Exception:   # noqa: short payload of an implemented type (C06); nothing to hand to the helpers
            return None
        return m, parse_msm(m), parse_4076_201(m)

    def pfn(model):
        return bytes(model.eval(sym.byte_term(e), model_completion=True).as_long() for e in H['p'].e)
    for path in eng.explore(fn):
        if path.kind == 'abort':
            continue
        if path.kind == 'ret' and path.value is None:
            continue
        res['obligations'] += 1
        if path.kind == 'exc':
            res['refuted'] += 1
            emit(eng, pfn, res, f"helper raised {type(path.value).__name__}: {str(path.value)[:80]}")
            continue
        if path.kind != 'ret':
            res['obligations'] -= 1
            res['inconclusive'].append(f"{spec}: {path.kind} {str(path.value)[:80]}")
            continue
        m, a, b = path.value
        ident = m.identity
        bad = []
        if ident not in t['msm'] and a is not None:
            bad.append(f"parse_msm returned a value for {ident}")
        if ident != "4076_201" and b is not None:
            bad.append(f"parse_4076_201 returned a value for {ident}")
        if bad:
            res['refuted'] += 1
            emit(eng, pfn, res, "; ".join(bad))
        else:
            res['discharged'] += 1
        res.count('other_paths')
    res.absorb_engine(eng)
    res['trunc'] = [x for x in res['trunc'] if x and x[0] != 'conc_limit']


def run_defined(spec, res):
    """every implemented non-MSM type once (complete payload): helpers return None"""
    from pyrtcm.rtcmmessage import RTCMMessage
    from pyrtcm.rtcmhelpers import parse_msm, parse_4076_201
    ids = [i for i in structs.all_identities() if structs.kind_of(i) in ('plain', 'flags') and structs.wellformed(i)][spec[1]::4]
    for ident in ids:
        st = dict(flags=5) if structs.kind_of(ident) == 'flags' else dict(mode=('uniform', 1))
        d = msgdrv.Directed(ident, structs.chooser(st), spare=0)
        eng = sym.Engine(max_paths=8, conc_limit=4)

        def fn():
            m = RTCMMessage(payload=d.build(eng))
            return parse_msm(m), parse_4076_201(m)
        for path in eng.explore(fn):
            if path.kind == 'abort':
                continue
            res['obligations'] += 1
            if path.kind == 'ret' and path.value == (None, None):
                res['discharged'] += 1
            elif path.kind in ('ret', 'exc'):
                res['refuted'] += 1
                emit(eng, d.payload_from_model, res, f"{ident}: helpers gave {path.value!r}"[:120])
            else:
                res['obligations'] -= 1
                res['inconclusive'].append(f"{ident}: {path.kind}")
            res.count('defined_paths')
        res.absorb_engine(eng)


def run_job(spec):
    msgdrv.install()
    res = JobResult(str(spec)[:60])
    k = spec[0]
    if k == 'msm':
        run_msm(spec, res)
    elif k == 'harm':
        run_harm(spec, res)
    elif k in ('others', 'others4076'):
        run_others(spec, res)
    else:
        run_defined(spec, res)
    res['samples'].append({'job': [str(x) for x in spec], 'paths': res['paths']})
    return res


def vacuity(tier, results, counters):
    errs = []
    if counters.get('msm_paths', 0) < 20:
        errs.append(f"only {counters.get('msm_paths', 0)} MSM helper paths")
    if counters.get('other_paths', 0) < 3900:
        errs.append(f"only {counters.get('other_paths', 0)} other-number paths")
    return errs
