"""C13 — a parse result depends only on the bytes parsed, not on history or threads.
Self-composition: B parsed after A (valid, failing, other type, same type) must give, term by term, what B gives from the pristine state, and
must not mention A's variables; the public tables are deep-compared before/after; every write to shared (module/class level) state during a
path is recorded.  Threads are not explored: if no path writes shared state, concurrent parses touch disjoint state; if some path does, the
candidate is handed to a concrete multi-thread replay (fresh interpreters) and reported as violation only if it reproduces."""
import copy
import random

import z3

from . import sym, shims, msgdrv, structs, rdrdrv, h_C09, oracle_layout as ol
from .core import JobResult
from .sym import SymBytes

META = {
    "level": "model_checking",
    "functions": ["pyrtcm.rtcmmessage.RTCMMessage.* (constructor)", "pyrtcm.rtcmreader.RTCMReader.parse / read", "pyrtcm.rtcmhelpers.calc_crc24q",
                  "module-level tables of rtcmtypes_core / rtcmtypes_get* / rtcmtables (frame condition)"],
    "transforms": ["if-conversion", "predication"],
    "shims": ["int", "bin", "chr", "SymStream", "shared-state tracker: empty/None module and class level containers, rebinding of any package-level binding"],
    "bounds": {"quick": "ordered pairs (A then B) over 10 A-structures (complete, truncated, unknown, text, MSM, flags, nested groups) x one representative B per "
                        "message family (about 24), all payload bits symbolic; same through RTCMReader.parse and one reader reading two frames; MSM pairs with equal masks; "
                        "triples for 6 combinations",
               "thorough": "every defined identity as B against 12 As; triples"},
    "outside": "thread interleavings are not explored by the engine (see module docstring); histories longer than 3 operations "
               "(state that survives one operation is what matters: any leak shows after one step)",
    "assumptions": ["a history influences later parses only through state the tracker can see or through the compared results"],
}
WALL_BUDGET = {"quick": 900, "thorough": 3000}

A_STRUCTS = [('1005', dict(mode=('uniform', 1)), 0), ('1005', dict(mode=('uniform', 1)), -7), ('1004', dict(mode=('uniform', 2)), 0),
             ('1004', dict(mode=('uniform', 2)), -3), ('4072', None, 6), ('1230', dict(flags=5), 0), ('1029', dict(mode=('uniform', 2)), 0),
             ('1059', dict(mode=('uniform', 2)), 0), ('1077', dict(nsat=1, nsig=1, cellmask='ones', maskmode='value', seed=1), 0),
             ('4076_025', dict(mode=('uniform', 1)), 0), ('4076_201', dict(harm=(0, 1, 1)), 0), ('1302', dict(mode=('uniform', 1)), -2)]


def b_structs(tier):
    ids = structs.all_identities()
    fam = {}
    for i in ids:
        if not structs.wellformed(i):
            continue
        k = structs.kind_of(i)
        key = ('msm', i[3]) if k == 'msm' else ('igs', i[-1]) if i.startswith('4076_0') or i.startswith('4076_1') else ('std', i)
        fam.setdefault(key, []).append(i)
    out = []
    for key, members in sorted(fam.items()):
        pick = members if tier != 'quick' else ([members[0], members[-1]] if key[0] != 'std' else members)
        out += pick
    return out


def default_struct(ident):
    k = structs.kind_of(ident)
    if k == 'msm':
        return dict(nsat=2, nsig=1, cellmask='ones', maskmode='value', seed=2)
    if k == 'harm':
        return dict(harm=(1, 1, 0))
    if k == 'flags':
        return dict(flags=9)
    return dict(mode=('uniform', 1))


def jobs(tier, seed):
    bs = b_structs(tier)
    out = []
    per = 4
    for i in range(0, len(bs), per):
        out.append(('pairs', bs[i:i + per], tier))
    out.append(('reader2', ('R19', 'R2', 'R19'), 1))
    out.append(('reader2', ('R2', 'R19', 'R3'), 2))
    out.append(('msmpair', '1074', '1104', 1, 1, 1))
    out.append(('msmpair', '1127', '1097', 1, 1, 2))
    out.append(('msmpair', '1074', '1114', 3, 2, 1, 'value'))
    out.append(('msmpair', '1107', '1087', 2, 2, 2, 'value'))
    out.append(('crc',))
    out.append(('sockpair',))
    out.append(('awkward',))
    return out


SNAP = None


def table_snapshot():
    """deep copy of every module-level container of the definition / lookup modules"""
    import pyrtcm.rtcmtypes_core as tc
    import pyrtcm.rtcmtypes_get as tg
    import pyrtcm.rtcmtypes_get_msm as tm
    import pyrtcm.rtcmtypes_get_igs as ti
    import pyrtcm.rtcmtables as tt
    out = {}
    for mod in (tc, tg, tm, ti, tt):
        for k, v in vars(mod).items():
            if isinstance(v, (dict, list, tuple, set)) and not k.startswith("__"):
                out[(mod.__name__, k)] = copy.deepcopy(v)
    return out


def tables_changed(base):
    cur = table_snapshot()
    return sorted(f"{m}.{k}" for (m, k) in base if cur.get((m, k)) != base[(m, k)]) + sorted(f"{m}.{k} (new)" for (m, k) in cur if (m, k) not in base)


def build_a(eng, a):
    ident, st, delta = a
    if st is None:
        p = sym.symbytes("a", delta)
        eng.assume(msgdrv.fterm(p.term(), 8 * delta, 0, 12) == int(ident))
        return p
    d0 = msgdrv.Directed(ident, structs.chooser(st), spare=0, pname="a")
    L = d0.need + delta if delta < 0 else d0.need + 1
    d = msgdrv.Directed(ident, structs.chooser(st), length=max(L, 3), pname="a")
    return d.build(eng)


def attrs_of(m):
    return msgdrv.public_attrs(m)


def same_val(a, b):
    ta, tb_ = sym.term_of(a), sym.term_of(b)
    if ta or tb_:
        if isinstance(a, sym.SymScaled) and (not isinstance(b, sym.SymScaled) or a.f != b.f):
            return False
        return type(a) is type(b) and len(ta) == len(tb_) and all(x.eq(y) or z3.simplify(x).eq(z3.simplify(y)) for x, y in zip(ta, tb_))
    return type(a) is type(b) and a == b


def outcome_sig(kind, val):
    if kind == 'ret':
        return ('msg', val.identity, attrs_of(val))
    return ('exc', type(val).__name__, None)


def run_pairs(spec, res):
    from pyrtcm.rtcmmessage import RTCMMessage
    from pyrtcm.rtcmreader import RTCMReader
    _, bids, tier = spec
    base = table_snapshot()
    for bid in bids:
        stb = default_struct(bid)
        db = msgdrv.Directed(bid, structs.chooser(stb), spare=1, pname="p")
        # reference: B from the pristine state
        eng = sym.Engine(max_paths=8, conc_limit=4)
        ref = []

        def fn0():
            return RTCMMessage(payload=db.build(eng))
        for path in eng.explore(fn0):
            if path.kind in ('ret', 'exc'):
                ref.append(outcome_sig(path.kind, path.value))
            elif path.kind != 'abort':
                res['inconclusive'].append(f"{bid} alone: {path.kind}")
        res.absorb_engine(eng)
        if len(ref) != 1:
            res['notes'].append(f"{bid}: {len(ref)} reference paths")
            continue
        for ai, a in enumerate(A_STRUCTS):
            if tier == 'quick' and (ai + int(bid[:4])) % 2 and a[0] not in (bid, '1005'):
                continue
            for via in ('ctor', 'parse'):
                if via == 'parse' and (ai % 3):
                    continue
                eng = sym.Engine(max_paths=16, conc_limit=4)
                H = {}

                def fn():
                    pa = build_a(eng, a)
                    H['pa'] = pa
                    try:
                        if via == 'ctor':
                            RTCMMessage(payload=pa)
                        else:
                            RTCMReader.parse(SymBytes([0xD3, len(pa) >> 8, len(pa) & 0xFF] + pa.e + [1, 2, 3]), validate=0)
                    except Exception:   # noqa: a failing parse is a history too
                        pass
                    pb = db.build(eng)
                    if via == 'ctor':
                        return RTCMMessage(payload=pb)
                    return RTCMReader.parse(SymBytes([0xD3, len(pb) >> 8, len(pb) & 0xFF] + pb.e + [0, 0, 0]), validate=0)
                for path in eng.explore(fn):
                    if path.kind == 'abort':
                        continue
                    if path.kind not in ('ret', 'exc'):
                        res['inconclusive'].append(f"{a[0]}->{bid}: {path.kind} {str(path.value)[:60]}")
                        continue
                    res['obligations'] += 1
                    sig = outcome_sig(path.kind, path.value)
                    bad = []
                    r0 = ref[0]
                    if sig[0] != r0[0] or sig[1] != r0[1]:
                        bad.append(f"outcome {sig[:2]} after {a[0]}, {r0[:2]} from the pristine state")
                    elif sig[0] == 'msg':
                        if list(sig[2]) != list(r0[2]):
                            bad.append("attribute names differ")
                        else:
                            for k in sig[2]:
                                if not same_val(sig[2][k], r0[2][k]):
                                    bad.append(f"{k} differs")
                                    break
                                for t in sym.term_of(sig[2][k]):
                                    if any(v.startswith("a") for v in sym.vars_of(t)):
                                        bad.append(f"{k} depends on the bytes of the earlier message")
                                        break
                    if bad:
                        res['refuted'] += 1
                        if eng.check3() == 'sat':
                            m = eng.model()
                            res['cex'].append({'kind': 'construct', 'history': [rdrdrv.model_bytes(m, H['pa']).hex()], 'payload': db.payload_from_model(m).hex(),
                                               'checks': ['fields', 'total', 'decodable'], 'why': f"{a[0]} then {bid}: " + "; ".join(bad[:2]),
                                               'dedup': f"{a[0]}:{bid}:{bad[0][:30]}"})
                    else:
                        res['discharged'] += 1
                    res.count('pairs')
                res.absorb_engine(eng)
        # a triple: B, B again, and B after two different messages
        if len(res['witnesses']) < 2:
            eng = sym.Engine(max_paths=2)
            for path in eng.explore(fn0):
                if path.kind == 'ret' and eng.check3() == 'sat':
                    res['witnesses'].append({'kind': 'construct', 'payload': db.payload_from_model(eng.model()).hex(),
                                             'history': ["3ed0000000", "fe80"], 'checks': ['fields', 'total', 'decodable']})
                break
    ch = tables_changed(base)
    res['obligations'] += 1
    if ch:
        res['refuted'] += 1
        res['cex'].append({'kind': 'tables', 'payloads': [], 'why': f"parsing modified library tables: {ch[:4]}", 'changed': ch[:10], 'dedup': "tables"})
    else:
        res['discharged'] += 1


def run_reader2(spec, res):
    """one reader object reading several frames: each parsed message equals the direct construction from its payload"""
    from pyrtcm.rtcmmessage import RTCMMessage
    from . import streams
    _, seq, mode = spec
    eng = sym.Engine(max_paths=16, conc_limit=4)
    H = {}

    def fn():
        data, items = streams.build(eng, seq)
        H['data'], H['items'] = data, items
        pol = streams.CrcPolicy(eng, items)
        run = rdrdrv.iterate(shims.SymStream(data), mode=mode, crc_hook=pol)
        direct = []
        for it in items:
            if it.frame:
                direct.append(RTCMMessage(payload=SymBytes(it.elems[3:-3])))
        return run, direct
    for path in eng.explore(fn):
        if path.kind == 'abort':
            continue
        res['obligations'] += 1
        if path.kind != 'ret':
            res['obligations'] -= 1
            res['inconclusive'].append(f"{spec}: {path.kind} {str(path.value)[:60]}")
            continue
        run, direct = path.value
        got = [m for _, m in run.pairs()]
        ok = len(got) == len(direct)
        if ok:
            for g, d in zip(got, direct):
                a, b = attrs_of(g), attrs_of(d)
                if list(a) != list(b) or not all(same_val(a[k], b[k]) for k in a):
                    ok = False
        if ok:
            res['discharged'] += 1
        else:
            res['refuted'] += 1
            if eng.check3() == 'sat':
                from . import h_C02
                res['cex'].append(h_C02.case_of(eng.model(), H, run, seq, mode, 'file', 4096, "messages of one reader differ from direct construction"))
        res.count('pairs')
    res.absorb_engine(eng)


def run_sockpair(res):
    """two socket-backed readers/wrappers one after the other in one process: the second delivers exactly its own stream"""
    from pyrtcm.socketwrapper import SocketWrapper
    for (n1, n2, enc) in ((3, 4, 0), (5, 2, 0), (4, 4, 1)):
        eng = sym.Engine(max_paths=200, conc_limit=16)
        eng.time_budget = 60
        H = {}

        def fn():
            d1, d2 = sym.symbytes("a", n1), sym.symbytes("b", n2)
            if enc:
                d1 = SymBytes(list(b"%x\r\n" % n1) + d1.e + list(b"\r\n"))
                body2 = d2
                d2 = SymBytes(list(b"%x\r\n" % n2) + d2.e + list(b"\r\n0\r\n\r\n"))
            else:
                body2 = d2
            H['d2'] = body2
            s1, s2 = shims.SymSocket(d1, maxcuts=1), shims.SymSocket(d2, maxcuts=1)
            try:
                w1 = SocketWrapper(s1, encoding=enc, bufsize=4096)
                w1.read(2)
                w2 = SocketWrapper(s2, encoding=enc, bufsize=4096)
                out = []
                for _ in range(n2 + 3):
                    x = w2.read(1)
                    if len(x) == 0:
                        break
                    out += list(x)
                return out
            finally:
                s1.close()
                s2.close()
        for path in eng.explore(fn):
            if path.kind == 'abort':
                continue
            res['obligations'] += 1
            if path.kind != 'ret':
                res['obligations'] -= 1
                res['inconclusive' if path.kind != 'exc' else 'harness_errors'].append(f"sockpair: {path.kind} {str(path.value)[:60]}")
                continue
            if sym.same_bytes(path.value, list(H['d2'])):
                res['discharged'] += 1
            else:
                res['refuted'] += 1
                res['cex'].append({'kind': 'sockpair', 'first': "0102030405"[:2 * n1], 'second': "a1a2a3a4a5"[:2 * n2], 'encoding': enc,
                                   'why': "a second socket wrapper delivers bytes that are not its own stream", 'dedup': f"sockpair:{enc}"})
            res.count('pairs')
        res.absorb_engine(eng)


def run_awkward(res):
    """MSM messages with awkward masks (last satellite slot, unmapped slots, reserved signals) parsed concretely under the tracker: the
    lookup tables must be unchanged afterwards and no shared state written"""
    from pyrtcm.rtcmmessage import RTCMMessage
    base = table_snapshot()
    n = 0
    for b in structs.MSM_BASES:
        for lvl in (1, 4, 7):
            ident = str(b + lvl)
            if not structs.wellformed(ident):
                continue
            for pl in structs.random_msm_cases(ident, 3, 6):
                for opt in (1, 2):
                    try:
                        RTCMMessage(payload=pl, labelmsm=opt)
                    except Exception:  # noqa
                        pass
                    n += 1
    ch = tables_changed(base)
    res['obligations'] += 1
    res['paths'] += n
    res['decisions'] += n
    if ch:
        res['refuted'] += 1
        res['cex'].append({'kind': 'tables', 'why': f"parsing MSM messages modified library tables: {ch[:4]}", 'changed': ch[:10], 'msm_awkward': True, 'dedup': "tables"})
    else:
        res['discharged'] += 1
    res.count('pairs', n)


def run_crc(res):
    from . import h_C08
    h_C08.run_hist(res)


def run_job(spec):
    shims.install()
    res = JobResult(str(spec)[:70])
    k = spec[0]
    if k == 'pairs':
        run_pairs(spec, res)
    elif k == 'reader2':
        run_reader2(spec, res)
    elif k == 'msmpair':
        h_C09.run_pair(('pair',) + tuple(spec[1:]), res)
    elif k == 'sockpair':
        run_sockpair(res)
    elif k == 'awkward':
        run_awkward(res)
    else:
        run_crc(res)
    res['samples'].append({'job': [str(x)[:50] for x in spec], 'pairs': res['counters'].get('pairs', 0)})
    if shims.SHARED_WRITES:
        res['counters']['shared_names'] = 0
        res['notes'].append("SHARED:" + "|".join(sorted(shims.SHARED_WRITES)))
    return res


def finalize(tier, seed, results):
    """thread clause: decided by the frame condition; a shared write makes it a candidate for the concrete multi-thread replay"""
    shared = set()
    for r in results:
        for n in r['notes']:
            if n.startswith("SHARED:"):
                shared |= set(n[7:].split("|"))
    out = {'obligations': 1, 'discharged': 0, 'refuted': 0, 'cex': [], 'notes': [], 'inconclusive': []}
    if not shared:
        out['discharged'] = 1
        out['notes'].append("frame condition: no explored path wrote module/class level state -> concurrent parses touch disjoint state")
    else:
        out['refuted'] = 1
        out['notes'].append("shared state written during parsing: " + ", ".join(sorted(shared)))
        out['cex'].append({'kind': 'threads', 'why': "parsing writes shared state (" + ", ".join(sorted(shared))[:200] + "): concurrent parses may interfere",
                           'shared': sorted(shared), 'dedup': 'threads', 'note_if_not_reproduced': True})
    return out


def vacuity(tier, results, counters):
    if counters.get('pairs', 0) < 100:
        return [f"only {counters.get('pairs', 0)} ordered pairs"]
    return []
