"""C09 — MSM masks map to the right satellites, signals and cells (all mask positions symbolic)."""
import z3

from . import sym, msgdrv, structs, concrete, oracle_layout as ol
from .core import JobResult

META = {
    "level": "model_checking",
    "functions": ["pyrtcm.rtcmmessage.RTCMMessage._getsatcellmaps (predicated)", "._set_attribute_single (DF394/DF395/DF396 popcounts, PRN/CELLPRN/CELLSIG)",
                  "pyrtcm.rtcmtables.PRNSIGMAP"],
    "transforms": ["predication of _getsatcellmaps (masks stay fully symbolic)", "if-conversion of _set_attribute_single"],
    "shims": ["int", "bin (popcount)", "chr"],
    "bounds": {"quick": "every constellation and every MSM level at (NSat,NSig) in {(0,0),(1,1),(2,1),(1,2)} and four constellations (by seed) at (2,2); satellite and signal mask positions symbolic "
                        "(all C(64,k) x C(32,g) placements at once), cell mask and all other payload bits free, both label options",
               "thorough": "all 49 types x both options at <=2x2, every constellation at (3,3) for two MSM levels, (3,2)/(2,3) for all"},
    "outside": "more than 3 satellites or signals with symbolic positions (larger shapes with concrete positions are covered by C03); "
               "BeiDou satellite IDs 38-63 and signal IDs 22-25,30-32 are unpinned (repository value or N/A accepted)",
    "assumptions": ["RINEX codes and PRN numbering pinned in spec/msm.json (RTCM 10403.3); frequency-band names are pyrtcm's own vocabulary and read from the repo table",
                    "labels compared after normalising digit strings to numbers"],
}
WALL_BUDGET = {"quick": 900, "thorough": 5400}
SHAPES_Q = ((0, 0), (1, 1), (2, 1), (1, 2), (2, 2))


def jobs(tier, seed):
    out = []
    bases = structs.MSM_BASES
    if tier == 'quick':
        for ci, b in enumerate(bases):
            lvl = 1 + (ci + seed) % 7
            for (k, g) in SHAPES_Q:
                if (k, g) == (2, 2) and (ci + seed) % 7 >= 4:
                    continue          # quick: 2x2 with symbolic positions for four constellations per run (all seven in thorough)
                out.append((str(b + lvl), k, g, 1 + ((k + g + ci) % 2)))
        for lvl in range(1, 8):
            b = bases[(lvl + seed) % 7]
            for (k, g) in ((1, 1), (2, 1)):
                out.append((str(b + lvl), k, g, 2 - ((lvl + k) % 2)))
        out.append((str(bases[seed % 7] + 4), 1, 2, 0))      # option value 0 behaves like RINEX
    else:
        for b in bases:
            for lvl in range(1, 8):
                for (k, g) in SHAPES_Q:
                    for opt in (1, 2):
                        out.append((str(b + lvl), k, g, opt))
            for lvl in (4, 7):
                out.append((str(b + lvl), 3, 3, 1))
                out.append((str(b + lvl), 3, 3, 2))
            out.append((str(b + 5), 3, 2, 1))
            out.append((str(b + 6), 2, 3, 2))
    # two-message histories: a message of another constellation with the SAME masks decoded first must not change the labels
    prs = [('1074', '1104', 1, 1, 1), ('1087', '1117', 1, 1, 2), ('1124', '1094', 2, 1, 1), ('1075', '1115', 3, 2, 1, 'value'), ('1106', '1086', 2, 2, 2, 'value')]
    if tier != 'quick':
        prs += [('1077', '1107', 2, 2, 1), ('1131', '1081', 1, 2, 2), ('1097', '1127', 2, 2, 2)]
    out += [('pair',) + p for p in prs]
    # de-duplicate
    seen, uniq = set(), []
    for j in out:
        if j not in seen:
            seen.add(j)
            uniq.append(j)
    return uniq


def run_msm(ident, k, g, option, res, labelmsm_value=None, checks=('msm', 'fields')):
    """one structure; returns list of (path kind, message, Directed) for relational users (C16/C18)"""
    from pyrtcm.rtcmmessage import RTCMMessage
    spec = dict(nsat=k, nsig=g)
    ch = structs.chooser(dict(nsat=k, nsig=g, cellmask='zero'))

    def choose(name, w, what):
        if name.startswith("DF396"):
            return ('free',)
        return ch(name, w, what)
    d = make_directed(ident, k, g)
    eng = sym.Engine(max_paths=64, conc_limit=32, conc_small=0)
    eng.query_timeout_ms = 240000
    label = option if labelmsm_value is None else labelmsm_value

    def fn():
        p = d.build(eng)
        return RTCMMessage(payload=p, labelmsm=label)
    out = []
    for path in eng.explore(fn):
        if path.kind == 'abort':
            continue
        if path.kind == 'exc':
            res['obligations'] += 1
            res['refuted'] += 1
            emit(eng, d, res, ident, k, g, label, f"complete MSM payload rejected: {type(path.value).__name__}: {str(path.value)[:100]}", ['decodable'])
            continue
        if path.kind != 'ret':
            res['inconclusive'].append(f"{ident} {k}x{g}: {path.kind} {str(path.value)[:80]}")
            continue
        m = path.value
        lay = None
        for lay_, extra in msgdrv.layouts_for_path(eng, ident, d.P, d.nb):
            lay = lay_
            break
        if lay is None or lay in ('overrun', 'more') or isinstance(lay, Exception):
            res['harness_errors'].append(f"{ident} {k}x{g}: oracle layout {lay}")
            continue
        A, B = d.wit.get("DF394", []), d.wit.get("DF395", [])
        claims = msgdrv.msm_claims(m, ident, A, B, d.P, d.nb, lay, 2 if label == 2 else 1)

        def cex(name, model, text):
            emit(eng, d, res, ident, k, g, label, text, ['msm'], model)
        msgdrv.discharge(eng, claims, res, cex, label=f"{ident} {k}x{g} opt{label} ")
        res.count('paths_checked')
        out.append((m, eng))
        if len(res['witnesses']) < 2 and eng.check3() == 'sat':
            res['witnesses'].append({'kind': 'construct', 'payload': d.payload_from_model(eng.model()).hex(), 'labelmsm': label,
                                     'checks': ['msm', 'fields', 'total']})
    res.absorb_engine(eng)
    return d


def make_directed(ident, k, g, pname="p", spare=1, value_seed=None):
    """identity + popcounts of the satellite and signal masks fixed (positions symbolic); cell mask and everything else free.
    The payload is sized for a full cell mask (NCell = k*g)."""
    if value_seed is not None:
        ch = structs.chooser(dict(nsat=k, nsig=g, cellmask='ones', maskmode='value', seed=value_seed))
    else:
        ch = structs.chooser(dict(nsat=k, nsig=g, cellmask='ones'))
    d = msgdrv.Directed(ident, ch, spare=spare, pname=pname)
    if value_seed is not None:
        # concrete mask positions (for code the predication transform cannot handle): positions as constants
        for a in d.assume_list:
            if a[0] == 'eq' and a[1] in ("DF394", "DF395"):
                w, v = a[3], a[4]
                d.wit_const = getattr(d, 'wit_const', {})
                d.wit_const[a[1]] = [z3.BitVecVal(pos, 8) for pos in range(1, w + 1) if v >> (w - pos) & 1]
    # drop the assumption on the cell mask: it stays free (NCell is concretised by the code's own range())
    d.assume_list = [a for a in d.assume_list if not a[1].startswith("DF396")]
    return d


def emit(eng, d, res, ident, k, g, label, why, checks, model=None):
    if model is None and eng.check3() == 'sat':
        model = eng.model()
    if model is None:
        res['harness_errors'].append(f"{ident}: no model for {why}")
        return
    res['cex'].append({'kind': 'construct', 'payload': d.payload_from_model(model).hex(), 'labelmsm': label, 'checks': list(checks) + ['total'],
                       'why': why, 'ident': ident, 'dedup': f"{ident[:3]}:{why.split()[-1][:20]}:{label}"})


def run_pair(spec, res):
    """decode a message of constellation A, then one of constellation B carrying the very same three masks"""
    from pyrtcm.rtcmmessage import RTCMMessage
    _, ida, idb, k, g, opt = spec[:6]
    value = len(spec) > 6 and spec[6] == 'value'
    da = make_directed(ida, k, g, pname="q", value_seed=11 if value else None)
    db = make_directed(idb, k, g, pname="p", value_seed=11 if value else None)
    eng = sym.Engine(max_paths=200, conc_limit=3, conc_small=0)
    eng.time_budget = 240
    eng.query_timeout_ms = 60000

    def fn():
        pa = da.build(eng)
        pb = db.build(eng)
        la, lb = da.layout.by_name(), db.layout.by_name()
        for nm in ("DF394", "DF395"):
            eng.assume(msgdrv.fterm(da.P, da.nb, la[nm].off, la[nm].w) == msgdrv.fterm(db.P, db.nb, lb[nm].off, lb[nm].w))
        wc = k * g
        if wc:
            eng.assume(msgdrv.fterm(da.P, da.nb, la["DF396"].off, wc) == msgdrv.fterm(db.P, db.nb, lb["DF396"].off, wc))
        try:
            RTCMMessage(payload=pa, labelmsm=opt)
        except Exception:   # noqa: a failing first message is a history too
            pass
        return RTCMMessage(payload=pb, labelmsm=opt)
    for path in eng.explore(fn):
        if path.kind == 'abort':
            continue
        if path.kind != 'ret':
            if path.kind == 'exc':
                res['obligations'] += 1
                res['refuted'] += 1
                pair_case(eng, da, db, opt, res, f"second message rejected after the first: {type(path.value).__name__}")
            else:
                res['inconclusive'].append(f"{spec}: {path.kind} {str(path.value)[:80]}")
            continue
        m = path.value
        lay = None
        for lay_, extra in msgdrv.layouts_for_path(eng, idb, db.P, db.nb):
            lay = lay_
            break
        if lay is None or lay in ('overrun', 'more') or isinstance(lay, Exception):
            res['harness_errors'].append(f"{spec}: oracle layout {lay}")
            continue
        wc_ = getattr(db, 'wit_const', {})
        claims = msgdrv.msm_claims(m, idb, db.wit.get("DF394") or wc_.get("DF394", []), db.wit.get("DF395") or wc_.get("DF395", []),
                                   db.P, db.nb, lay, 2 if opt == 2 else 1)

        def cex(name, model, text):
            pair_case(eng, da, db, opt, res, text, model)
        msgdrv.discharge(eng, claims, res, cex, label=f"{ida}->{idb} ")
        res.count('paths_checked')
    res.absorb_engine(eng)
    res['trunc'] = [t for t in res['trunc'] if t and t[0] != 'conc_limit']


def pair_case(eng, da, db, opt, res, why, model=None):
    if model is None and eng.check3() == 'sat':
        model = eng.model()
    if model is None:
        res['harness_errors'].append("no model for " + why)
        return
    res['cex'].append({'kind': 'construct', 'history': [da.payload_from_model(model).hex()], 'payload': db.payload_from_model(model).hex(),
                       'labelmsm': opt, 'checks': ['msm', 'total'], 'why': why, 'dedup': f"pair:{da.ident}:{db.ident}:{why.split()[-1][:16]}"})


def run_job(spec):
    if spec[0] == 'pair':
        msgdrv.install()
        res = JobResult(str(spec))
        run_pair(spec, res)
        res['samples'].append({'pair': list(spec)})
        return res
    ident, k, g, opt = spec
    msgdrv.install()
    res = JobResult(f"{ident}:{k}x{g}:opt{opt}")
    if not structs.wellformed(ident):
        res['notes'].append(f"{ident}: malformed definition; reported under C10")
        return res
    run_msm(ident, k, g, opt, res)
    # additional concrete witnesses with awkward masks, replayed on the unmodified code (not the deciding step)
    if k == 1 and g == 1:
        for pl in structs.random_msm_cases(ident, opt, 6):
            res['witnesses'].append({'kind': 'construct', 'payload': pl.hex(), 'labelmsm': opt, 'checks': ['msm', 'fields', 'total', 'decodable']})
    res.count('structures')
    res['samples'].append({'identity': ident, 'NSat': k, 'NSig': g, 'labelmsm': opt, 'paths': res['paths'], 'obligations': res['obligations']})
    return res


def vacuity(tier, results, counters):
    if counters.get('paths_checked', 0) < 40:
        return [f"only {counters.get('paths_checked', 0)} MSM paths checked"]
    return []
