"""C04 — parsing is total (only the library's own errors) and terminates.
(a) constructor in free mode: every identity class x payload lengths, all bits symbolic;
(b) static parser: symbolic buffers of every length, validate flag a free integer;
(c) reader: all streams up to the length bound in the three error modes: nothing foreign escapes, modes 0/1 never raise,
    iteration ends within 3*len+8 next() calls."""
import z3

from . import sym, shims, msgdrv, rdrdrv, structs, oracle_layout as ol
from .core import JobResult
from .sym import SymBytes

META = {
    "level": "model_checking",
    "functions": ["pyrtcm.rtcmmessage.RTCMMessage.__init__/_do_attributes/_set_attribute*/identity", "pyrtcm.rtcmreader.RTCMReader.parse",
                  "RTCMReader.read/__next__/_parse_*/_read_bytes/_read_line/_do_error", "calc_crc24q (if-converted / fold summary)"],
    "transforms": ["if-conversion (_set_attribute_single, calc_crc24q)", "predication (_getsatcellmaps)"],
    "shims": ["int", "bin", "chr", "SymStream", "NMEA_HDR membership as one decision", "logging disabled"],
    "bounds": {
        "quick": "constructor: every defined identity + 14 undefined/reserved numbers + 4076 with free sub-type, payload lengths 0..24, all bits symbolic, "
                 "each counter explored for values 0,1,2 and one solver-chosen larger value, <= 600 paths per (identity,length); parse(): buffers 0..16 bytes, "
                 "validate a free integer, 8 representative message numbers; reader: all streams of length 0..8 in modes 0/1/2, <=1 injected fault at <=5",
        "thorough": "payload lengths 0..48 (MSM types 0..32; mask shapes above 10 cells 0..28), buffers 0..32, streams 0..10, <=2 faults at <=7"},
    "outside": "payloads longer than the bound for arbitrary bytes (structure-aware long inputs are covered by C03/C06 directed runs); counters above the explored values",
    "assumptions": ["stream double contract: read(n) returns at most n bytes; empty result only at end of data or injected fault"],
}
WALL_BUDGET = {"quick": 900, "thorough": 3000}
UNDEF = (0, 1, 999, 1000, 1018, 1028, 1070, 1078, 1138, 1229, 1231, 4072, 4075, 4095)


def jobs(tier, seed):
    maxl = 24 if tier == 'quick' else 48
    ids = structs.all_identities()
    # MSM payloads with free masks: the number of mask shapes grows with the length; thorough stops at 32 bytes for them
    out = [('ctor', ident, maxl if tier == 'quick' or structs.kind_of(ident) != 'msm' else 32) for ident in ids]
    out += [('ctor_undef', n, maxl) for n in UNDEF]
    out += [('ctor_4076', 0, 8 if tier == 'quick' else 16), ('ctor_short', 0, 2)]
    maxb = 16 if tier == 'quick' else 32
    for num in (1005, 1004, 1077, 1230, 4072, 1070, 1029, 4076):
        out.append(('parse', num, maxb))
    maxn = 8 if tier == 'quick' else 10
    for n in range(0, maxn + 1):
        for mode in (0, 1, 2):
            if tier == 'quick' and n >= 8 and mode != 1:
                continue
            out.append(('stream', n, mode, 0))
    for n in range(1, 6 if tier == 'quick' else 8):
        for mode in (0, 2):
            out.append(('stream', n, mode, 1 if tier == 'quick' or n > 5 else 2))
    return out


def total_ok(path):
    """outcome is a message or a library error"""
    if path.kind == 'ret':
        return True
    if path.kind == 'exc':
        return isinstance(path.value, rdrdrv.lib_errors())
    return None


def ctor_lengths(eng_factory, lengths, assume_fn, res, label):
    from pyrtcm.rtcmmessage import RTCMMessage
    for L in lengths:
        eng = eng_factory()
        H = {}

        def fn():
            p = sym.symbytes("p", L)
            H['p'] = p
            assume_fn(eng, p, L)
            return RTCMMessage(payload=p)
        wit = 0
        for path in eng.explore(fn):
            if path.kind == 'abort':
                continue
            ok = total_ok(path)
            res['obligations'] += 1
            if ok is True:
                res['discharged'] += 1
                if path.kind == 'ret' and path.value.__dict__.get('_immutable') is not True:
                    res['obligations'] += 1
                    res['refuted'] += 1
                    emit(eng, H['p'], res, f"{label} L={L}: message not immutable after construction", ['immutable_flag'])
            elif ok is False:
                res['refuted'] += 1
                emit(eng, H['p'], res, f"{label} L={L}: {type(path.value).__name__}: {str(path.value)[:80]}", ['total'])
            else:
                res['obligations'] -= 1
                if path.kind == 'budget':
                    res['obligations'] += 1
                    res['refuted'] += 1
                    emit(eng, H['p'], res, f"{label} L={L}: decision budget exceeded (possible non-termination)", ['total'], hang=True)
                else:
                    res['inconclusive'].append(f"{label} L={L}: {path.kind} {str(path.value)[:80]}")
            if wit < 1 and L % 5 == 2 and eng.check3() == 'sat':
                wit += 1
                pl = bytes(eng.model().eval(sym.byte_term(e), model_completion=True).as_long() for e in H['p'].e)
                res['witnesses'].append({'kind': 'construct', 'payload': pl.hex(), 'checks': ['total', 'overrun']})
        res.absorb_engine(eng)
    res['trunc'] = [t for t in res['trunc'] if t and t[0] not in ('conc_limit',)]


def emit(eng, p, res, why, checks, hang=False):
    if eng.check3() == 'sat':
        mdl = eng.model()
        pl = bytes(mdl.eval(sym.byte_term(e), model_completion=True).as_long() for e in p.e)
        c = {'kind': 'construct', 'payload': pl.hex(), 'checks': checks, 'why': why, 'dedup': why.split(':')[0][:20] + why[-60:]}
        if hang:
            c['expect_hang'] = True
        res['cex'].append(c)
    else:
        res['harness_errors'].append("no model for " + why)


def run_job(spec):
    msgdrv.install()
    res = JobResult(str(spec))
    kind = spec[0]
    if kind == 'ctor':
        _, ident, maxl = spec
        num = int(ident[:4])
        minl = 3 if "_" in ident else 2

        def assume_fn(eng, p, L):
            P = p.term()
            eng.assume(msgdrv.fterm(P, 8 * L, 0, 12) == num)
            if "_" in ident:
                eng.assume(msgdrv.fterm(P, 8 * L, 15, 8) == int(ident[5:]))
        if structs.kind_of(ident) == 'msm' and structs.wellformed(ident):
            # free masks make every popcount query a hard SAT problem: below the mask block everything is free; from the first
            # length that contains the three masks on, mask *popcounts* are enumerated (positions symbolic, cell mask and all else free)
            d0 = msgdrv.Directed(ident, structs.chooser(dict(nsat=0, nsig=0, cellmask='zero')), spare=0)
            hdr = d0.need
            ctor_lengths(lambda: sym.Engine(max_paths=150, conc_limit=4, conc_small=3), range(minl, min(hdr, maxl + 1)), assume_fn, res, ident)
            for (k, g, mm) in ((0, 0, None), (1, 1, None), (2, 1, None if maxl > 24 else 'value'), (2, 2, 'value'), (3, 2, 'value'), (1, 5, 'value'),
                               (6, 6, 'value'), (64, 32, 'value')):
                dd = msgdrv.Directed(ident, structs.chooser(dict(nsat=k, nsig=g, cellmask='zero', maskmode=mm, seed=k * 7 + g)), spare=0)
                pops = [a for a in dd.assume_list if a[0] == 'pop']
                eqs = [a for a in dd.assume_list if a[0] == 'eq' and a[1] in ("DF394", "DF395")]

                def assume_kg(eng, p, L, pops=pops, eqs=eqs):
                    assume_fn(eng, p, L)
                    P = p.term()
                    for (_, name, off, w, v) in eqs:
                        eng.assume(msgdrv.fterm(P, 8 * L, off, w) == v)
                    for (_, name, off, w, v) in pops:
                        A = [z3.BitVec(f"{name}_pos{i}", 8) for i in range(v)]
                        for i, a_ in enumerate(A):
                            eng.assume(z3.And(z3.UGE(a_, 1), z3.ULE(a_, w)))
                            if i:
                                eng.assume(z3.ULT(A[i - 1], a_))
                        eng.assume(msgdrv.fterm(P, 8 * L, off, w) == msgdrv.onehot_mask(w, A))
                # shapes with many cells: a free cell mask of 36+ bits makes the cell count a hard enumeration; they stop at 28 bytes
                top = maxl if k * g <= 10 else min(maxl, 28)
                ctor_lengths(lambda: sym.Engine(max_paths=150, conc_limit=4, conc_small=3), range(hdr, top + 1), assume_kg, res,
                             f"{ident}[{k}x{g}]")
        else:
            ctor_lengths(lambda: sym.Engine(max_paths=150, conc_limit=4, conc_small=3), range(minl, maxl + 1), assume_fn, res, ident)
    elif kind == 'ctor_undef':
        _, num, maxl = spec

        def assume_fn(eng, p, L):
            eng.assume(msgdrv.fterm(p.term(), 8 * L, 0, 12) == num)
        ctor_lengths(lambda: sym.Engine(max_paths=100, conc_limit=4), [2, 3, 4, 7, maxl], assume_fn, res, str(num))
    elif kind == 'ctor_4076':
        _, _, maxl = spec

        def assume_fn(eng, p, L):
            eng.assume(msgdrv.fterm(p.term(), 8 * L, 0, 12) == 4076)
        ctor_lengths(lambda: sym.Engine(max_paths=4000, conc_limit=300, conc_small=3), [2, 3, 4, maxl], assume_fn, res, "4076_*")
    elif kind == 'ctor_short':
        # lengths 0 and 1: no room for a message number; 2 with all bits free is C15's subject
        ctor_lengths(lambda: sym.Engine(max_paths=100, conc_limit=4), [0, 1], lambda eng, p, L: None, res, "short")
    elif kind == 'parse':
        run_parse(spec, res)
    else:
        run_stream(spec, res)
    if not res['samples']:
        res['samples'].append({'job': list(spec), 'paths': res['paths']})
    return res


def run_parse(spec, res):
    from pyrtcm.rtcmreader import RTCMReader
    _, num, maxb = spec
    for L in range(0, maxb + 1):
        eng = sym.Engine(max_paths=800, conc_limit=4, conc_small=3)
        H = {}

        def fn():
            b = sym.symbytes("m", L)
            H['b'] = b
            if L >= 5:
                eng.assume(msgdrv.fterm(b.term(), 8 * L, 24, 12) == num)
            v = sym.symint("v", 4)
            H['v'] = v
            rec = rdrdrv.CrcRecorder(rdrdrv.CrcSummary())
            shims.set_crc(rec)
            try:
                return RTCMReader.parse(b, validate=v)
            finally:
                shims.set_crc(rec.inner.direct)
        for path in eng.explore(fn):
            if path.kind == 'abort':
                continue
            ok = total_ok(path)
            res['obligations'] += 1
            if ok is True:
                res['discharged'] += 1
            elif ok is False:
                res['refuted'] += 1
                if eng.check3() == 'sat':
                    mdl = eng.model()
                    buf = rdrdrv.model_bytes(mdl, H['b'])
                    vv = mdl.eval(H['v'].t, model_completion=True).as_long()
                    why = f"parse L={L}: {type(path.value).__name__}: {str(path.value)[:80]}"
                    res['cex'].append({'kind': 'parse', 'buffer': buf.hex(), 'validate': vv, 'checks': ['total'], 'why': why,
                                       'dedup': f"parse:{type(path.value).__name__}:{L}"})
            else:
                res['obligations'] -= 1
                res['inconclusive'].append(f"parse {num} L={L}: {path.kind} {str(path.value)[:80]}")
        res.absorb_engine(eng)
    res['trunc'] = [t for t in res['trunc'] if t and t[0] not in ('conc_limit',)]


def run_stream(spec, res):
    _, n, mode, faults = spec
    eng = sym.Engine(max_paths=80000, conc_limit=3, conc_small=0)
    eng.conc_prefer = [4072, 1005]
    H = {}
    budget = 3 * n + 8

    def fn():
        data = sym.symbytes("s", n)
        H['data'] = data
        st = shims.SymStream(data, faults=faults)
        return rdrdrv.iterate(st, mode=mode, max_calls=budget)
    wit = 0
    for path in eng.explore(fn):
        if path.kind == 'abort':
            continue
        res['obligations'] += 1
        why = None
        hang = False
        if path.kind == 'budget':
            why, hang = "decision budget exceeded (possible non-termination)", True
        elif path.kind != 'ret':
            res['obligations'] -= 1
            res['inconclusive'].append(f"{spec}: {path.kind} {str(path.value)[:80]}")
            continue
        else:
            run = path.value
            if run.end == 'budget':
                why, hang = f"iteration did not end within {budget} next() calls", True
            elif isinstance(run.end, tuple) and run.end[0] == 'foreign':
                why = f"foreign exception {type(run.end[1]).__name__}: {str(run.end[1])[:60]}"
            elif isinstance(run.end, tuple) and run.end[0] == 'escaped':
                why = f"library exception {type(run.end[1]).__name__} escaped the iterator in mode {mode}"
        if why is None:
            res['discharged'] += 1
            if wit < 2 and path.value.events and eng.check3() == 'sat':
                wit += 1
                res['witnesses'].append({'kind': 'stream', 'data': rdrdrv.fix_crcs(eng.model(), H['data'], path.value).hex(), 'mode': mode,
                                         'faults': {str(c): k for c, k in path.value.stream.fault_seen}, 'checks': ['c04', 'c01']})
            continue
        res['refuted'] += 1
        if eng.check3() == 'sat':
            run = path.value if path.kind == 'ret' else None
            mdl = eng.model()
            data = rdrdrv.fix_crcs(mdl, H['data'], run) if run is not None else rdrdrv.model_bytes(mdl, H['data'])
            c = {'kind': 'stream', 'data': data.hex(), 'mode': mode, 'checks': ['c04'], 'why': why,
                 'faults': {str(c_): k for c_, k in run.stream.fault_seen} if run is not None else {}, 'dedup': f"stream:{why[:50]}:{mode}"}
            if hang:
                c['expect_hang'] = True
            res['cex'].append(c)
    res.absorb_engine(eng)
    res['trunc'] = [t for t in res['trunc'] if t and t[0] not in ('conc_limit',)]


def vacuity(tier, results, counters):
    return []
