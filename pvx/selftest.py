"""Self-validation of the engine (part of the evidence of C03, run on every invocation):
(a) proxy arithmetic: random integer expression trees evaluated through SymInt (z3 model evaluation) versus Python int;
(b) transform validation: frames recorded in the repository's tests are decoded twice - by the plain interpreter (concrete payload) and by
    Engine S with the payload bytes symbolic-but-pinned (p_i == byte) through the transformed functions; every attribute value must agree.
A failure here is a harness error (exit 3), never a property verdict."""
import glob
import os
import random

import z3

from . import sym, shims, msgdrv, concrete
from .core import REPO
from .sym import SymInt, SymScaled, SymStr, SymLabel


def rand_expr(rnd, depth, leaves):
    if depth == 0 or rnd.random() < 0.2:
        return rnd.choice(leaves)
    op = rnd.choice(["+", "-", "*", "&", "|", "^", "<<", ">>", "neg", "cmp"])
    a = rand_expr(rnd, depth - 1, leaves)
    if op == "neg":
        return ("neg", a)
    if op in ("<<", ">>"):
        return (op, a, rnd.randint(0, 9))
    b = rand_expr(rnd, depth - 1, leaves)
    return (op, a, b)


def ev(e, env):
    if isinstance(e, str):
        return env[e]
    if isinstance(e, int):
        return e
    op = e[0]
    if op == "neg":
        return -ev(e[1], env)
    a = ev(e[1], env)
    if op == "<<":
        return a << e[2]
    if op == ">>":
        return a >> e[2]
    b = ev(e[2], env)
    if op == "+":
        return a + b
    if op == "-":
        return a - b
    if op == "*":
        return a * b
    if op == "&":
        return a & b
    if op == "|":
        return a | b
    if op == "^":
        return a ^ b
    if op == "cmp":
        r = a < b
        return sym.SymInt.lift(r) if isinstance(r, sym.SymBool) else int(r)
    raise ValueError(op)


def proxy_selftest(seed, n=150):
    rnd = random.Random(seed)
    bad = []
    eng = sym.Engine()
    eng.begin_run()
    for i in range(n):
        names = ["x", "y", "z"]
        widths = {v: rnd.choice([1, 4, 8, 13, 24, 40]) for v in names}
        vals = {v: rnd.getrandbits(widths[v]) - (rnd.choice([0, 1]) << (widths[v] - 1)) * 0 for v in names}
        leaves = names + [rnd.randint(-300, 300), 0xFF, 1]
        e = rand_expr(rnd, 4, leaves)
        want = ev(e, vals)
        senv = {v: SymInt(z3.ZeroExt(1, z3.BitVec(f"{v}{i}", widths[v]))) for v in names}
        got = ev(e, senv)
        if isinstance(got, int):
            if got != want:
                bad.append((e, vals, got, want))
            continue
        s = z3.Solver()
        for v in names:
            s.add(z3.BitVec(f"{v}{i}", widths[v]) == vals[v])
        if s.check() != z3.sat:
            bad.append((e, "unsat"))
            continue
        gv = s.model().eval(got.t, model_completion=True).as_signed_long()
        if gv != want:
            bad.append((str(e)[:120], vals, gv, want))
    return bad


def recorded_frames():
    out = []
    files = sorted(glob.glob(os.path.join(REPO, "tests", "*.log")) + glob.glob(os.path.join(REPO, "tests", "*.bin")))
    for fn in files:
        data = open(fn, "rb").read()
        i = 0
        while i + 6 <= len(data):
            if data[i] == 0xD3 and data[i + 1] & 0xFC == 0:
                n = (data[i + 1] & 3) << 8 | data[i + 2]
                fr = data[i:i + n + 6]
                if len(fr) == n + 6 and n >= 2 and concrete.crc24q_ref(fr) == 0:
                    out.append((os.path.basename(fn), fr[3:-3]))
                    i += n + 6
                    continue
            i += 1
    return out


def conc_value(eng, v):
    """concrete value of a proxy under the (fully pinned) path condition"""
    if isinstance(v, SymInt):
        return eng.unique(v.t)
    if isinstance(v, SymScaled):
        u = eng.unique(v.i.t)
        return None if u is None else u * v.f
    if isinstance(v, SymStr):
        out = ""
        for c in v.cs:
            if isinstance(c, str):
                out += c
            else:
                u = eng.unique(c.t)
                if u is None:
                    return None
                out += chr(u)
        return out
    if isinstance(v, SymLabel):
        u = eng.unique(z3.ZeroExt(1, v.t))
        return None if u is None else sym.RLABELS.get(u)
    return v


def transform_validation(seed, limit):
    """returns (frames checked, differences)"""
    from pyrtcm.rtcmmessage import RTCMMessage
    frames = recorded_frames()
    if not frames:
        return 0, []
    rnd = random.Random(seed)
    byid = {}
    for fn, p in frames:
        byid.setdefault(concrete.ref_identity(p), (fn, p))
    pick = list(byid.values())
    rest = [f for f in frames if f not in pick]
    rnd.shuffle(rest)
    pick = (pick + rest)[:limit] if limit else frames
    diffs = []
    n = 0
    for fn, payload in pick:
        if len(payload) > 400 and limit:
            continue     # very large MSM frames are validated in the thorough tier (solver time per pinned frame grows with the cell count)
        for label in (1, 2):
            try:
                ref = RTCMMessage(payload=payload, labelmsm=label)
                refv = {k: v for k, v in ref.__dict__.items() if not k.startswith("_")}
            except Exception as e:  # noqa
                refv = ('exc', type(e).__name__)
            eng = sym.Engine(max_paths=4, conc_limit=4)
            eng.query_timeout_ms = 120000

            def fn_():
                p = sym.symbytes("p", len(payload))
                for e, b in zip(p.e, payload):
                    eng.assume(sym.byte_term(e) == b)
                return RTCMMessage(payload=p, labelmsm=label)
            paths = list(eng.explore(fn_))
            paths = [p for p in paths if p.kind != 'abort']
            if len(paths) != 1:
                diffs.append(f"{fn} {concrete.ref_identity(payload)}: {len(paths)} paths for a pinned payload")
                continue
            p = paths[0]
            if p.kind == 'exc':
                gotv = ('exc', type(p.value).__name__)
            elif p.kind == 'ret':
                eng.begin_run()
                for e, b in zip(sym.symbytes("p", len(payload)).e, payload):
                    eng.assume(sym.byte_term(e) == b)
                gotv = {k: conc_value(eng, v) for k, v in p.value.__dict__.items() if not k.startswith("_")}
            else:
                diffs.append(f"{fn}: path ended as {p.kind}: {p.value}")
                continue
            if gotv != refv:
                if isinstance(gotv, dict) and isinstance(refv, dict):
                    ks = [k for k in refv if gotv.get(k, object()) != refv[k]] + [k for k in gotv if k not in refv]
                    diffs.append(f"{fn} {concrete.ref_identity(payload)} label {label}: {ks[:3]} engine {[gotv.get(k) for k in ks[:2]]} real {[refv.get(k) for k in ks[:2]]}")
                else:
                    diffs.append(f"{fn} {concrete.ref_identity(payload)}: engine {str(gotv)[:60]} real {str(refv)[:60]}")
            n += 1
    return n, diffs
