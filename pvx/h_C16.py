"""C16 — the MSM label option changes signal labels only (relational: same symbolic payload under different option values)."""
import z3

from . import sym, shims, msgdrv, structs, rdrdrv, h_C09, oracle_layout as ol
from .core import JobResult
from .sym import SymBytes

META = {
    "level": "model_checking",
    "functions": ["pyrtcm.rtcmmessage.RTCMMessage.__init__ (labelmsm)", "._getsatcellmaps (predicated)", "pyrtcm.rtcmreader.RTCMReader._parse_rtcm3/parse (option pass-through)"],
    "transforms": ["predication of _getsatcellmaps", "if-conversion of _set_attribute_single"],
    "shims": ["int", "bin", "chr", "SymStream"],
    "bounds": {"quick": "every constellation once (MSM level by seed) at (NSat,NSig) in {(1,1),(2,2)}: the same symbolic payload parsed with option 1, option 2 and a free "
                        "integer option (covers 0, True and every other value); 12 non-MSM identities with a free option; reader pass-through on one-frame streams",
               "thorough": "all 49 MSM types at (1,1),(2,1),(2,2); all non-MSM identities"},
    "outside": "mask shapes above 2x2 with symbolic positions",
    "assumptions": ["mask positions symbolic (witness positions), cell mask and all other payload bits free"],
}
WALL_BUDGET = {"quick": 900, "thorough": 3000}


def jobs(tier, seed):
    out = []
    if tier == 'quick':
        for ci, b in enumerate(structs.MSM_BASES):
            lvl = 1 + (ci * 3 + seed) % 7
            out.append(('msm', str(b + lvl), 1, 1))
            out.append(('msm', str(b + lvl), 2, 2))
        ids = [i for i in structs.all_identities() if structs.kind_of(i) != 'msm']
        out += [('plain', ids[(j * 13 + seed) % len(ids)]) for j in range(12)]
    else:
        for b in structs.MSM_BASES:
            for lvl in range(1, 8):
                for (k, g) in ((1, 1), (2, 1), (2, 2)):
                    out.append(('msm', str(b + lvl), k, g))
        out += [('plain', i) for i in structs.all_identities() if structs.kind_of(i) != 'msm']
    out += [('reader', '1074', 1), ('reader', '1127', 2), ('reader', '1005', 2), ('reader', '1084', 2, 0), ('reader', '1096', 1, 0)]
    return out


def same_value(a, b):
    """syntactic identity of two attribute values"""
    if type(a) is not type(b):
        return False
    ta, tb_ = sym.term_of(a), sym.term_of(b)
    if ta or tb_:
        if len(ta) != len(tb_):
            return False
        if isinstance(a, sym.SymScaled) and a.f != b.f:
            return False
        return all(x.eq(y) or z3.simplify(x).eq(z3.simplify(y)) for x, y in zip(ta, tb_))
    return a == b


def compare(m1, m2, allow_cellsig):
    """list of differences between two messages' public attributes"""
    a, b = msgdrv.public_attrs(m1), msgdrv.public_attrs(m2)
    bad = []
    if list(a) != list(b):
        bad.append(f"attribute names differ: {sorted(set(a) ^ set(b))[:4]}")
        return bad
    for k in a:
        if allow_cellsig and k.startswith("CELLSIG_"):
            continue
        if not same_value(a[k], b[k]):
            bad.append(f"{k} differs")
    if m1.identity != m2.identity:
        bad.append("identity differs")
    return bad


def run_msm(spec, res):
    from pyrtcm.rtcmmessage import RTCMMessage
    _, ident, k, g = spec
    d = h_C09.make_directed(ident, k, g)
    eng = sym.Engine(max_paths=64, conc_limit=32)
    eng.query_timeout_ms = 240000

    def fn():
        p = d.build(eng)
        v = sym.symint("opt", 8, signed=True)
        m2first = RTCMMessage(payload=p, labelmsm=2)
        return (RTCMMessage(payload=p, labelmsm=1), RTCMMessage(payload=p, labelmsm=2), RTCMMessage(payload=p, labelmsm=v),
                RTCMMessage(payload=p, labelmsm=True), RTCMMessage(payload=p, labelmsm=0), v, m2first)
    for path in eng.explore(fn):
        if path.kind == 'abort':
            continue
        if path.kind != 'ret':
            res['inconclusive' if path.kind != 'exc' else 'notes'].append(f"{spec}: {path.kind} {str(path.value)[:80]}")
            if path.kind == 'exc':
                res['obligations'] += 1
                res['refuted'] += 1
                emit(eng, d, res, f"MSM payload rejected: {type(path.value).__name__}", 1)
            continue
        m1, m2, mv, mt, m0, v, m2first = path.value
        is2 = eng.forced(v.t == 2)
        bad = []
        bad += [f"option 2 parsed twice (before/after an option-1 parse): {x}" for x in compare(m2first, m2, False)]
        bad += [f"option 1 vs 2: {x}" for x in compare(m1, m2, True)]
        bad += [f"option True vs 1: {x}" for x in compare(mt, m1, False)]
        bad += [f"option 0 vs 1: {x}" for x in compare(m0, m1, False)]
        if is2 is True:
            bad += [f"free option (==2) vs 2: {x}" for x in compare(mv, m2, False)]
        elif is2 is False:
            bad += [f"free option (!=2) vs 1: {x}" for x in compare(mv, m1, False)]
        else:
            # the option value was never examined on this path: then both readings must agree with the result
            bad += [f"free option (unexamined) vs 1: {x}" for x in compare(mv, m1, False)]
            bad += [f"free option (unexamined) vs 2: {x}" for x in compare(mv, m2, False)]
        res['obligations'] += 1
        if bad:
            res['refuted'] += 1
            emit(eng, d, res, "; ".join(bad[:3]), 2, v=v)
        else:
            res['discharged'] += 1
        # consistency: under each option a signal position is labelled identically wherever it occurs
        lay = None
        for lay_, _ in msgdrv.layouts_for_path(eng, ident, d.P, d.nb):
            lay = lay_
            break
        if lay is None or lay in ('overrun', 'more') or isinstance(lay, Exception):
            res['harness_errors'].append(f"{spec}: oracle layout {lay}")
            continue
        wc = k * g
        cellf = lay.by_name()["DF396"]
        if k * g <= 2:
            # absolute labels under each option in THIS parse order (2, then 1, then 2): a decoder that remembers the previous
            # message's labels passes every relational comparison but labels option 1 with band names
            for m, opt, hist in ((m1, 1, [2]), (m2, 2, [2, 1])):
                cl = msgdrv.msm_claims(m, ident, d.wit.get("DF394", []), d.wit.get("DF395", []), d.P, d.nb, lay, opt)
                cl = [c for c in cl if c[0].startswith("CELLSIG")]

                def cex2(name, model, text, opt=opt, hist=hist):
                    if model is None and eng.check3() == 'sat':
                        model = eng.model()
                    if model is not None:
                        pl = d.payload_from_model(model).hex()
                        res['cex'].append({'kind': 'construct', 'payload': pl, 'labelmsm': opt, 'history': [pl] * len(hist), 'history_opts': hist,
                                           'checks': ['msm'], 'why': f"option {opt} after parses with options {hist}: {text}", 'dedup': f"abs:{ident[:3]}:{opt}"})
                msgdrv.discharge(eng, cl, res, cex2)
        for m, opt in ((m1, 1), (m2, 2)):
            pub = msgdrv.public_attrs(m)
            ncell = len([x for x in pub if x.startswith("CELLSIG_")])
            if ncell < 2 or wc == 0:
                continue
            cmt = msgdrv.fterm(d.P, d.nb, cellf.off, wc)
            gis = []
            for kk in range(1, ncell + 1):
                gi = z3.BitVecVal(255, 8)
                for pos in range(1, wc + 1):
                    bit = z3.Extract(wc - pos, wc - pos, cmt) == 1
                    before = msgdrv.popcount_term(z3.Extract(wc - 1, wc - pos + 1, cmt)) if pos > 1 else z3.BitVecVal(0, 2)
                    isk = z3.And(bit, before == z3.BitVecVal(kk - 1, before.size()))
                    gi = z3.If(isk, z3.BitVecVal((pos - 1) % g, 8), gi)
                gis.append(gi)
            claims = []
            for i in range(ncell):
                for j in range(i + 1, ncell):
                    li, lj = pub["CELLSIG_%02d" % (i + 1)], pub["CELLSIG_%02d" % (j + 1)]
                    ti = sym.SymLabel.lift(li)
                    tj = sym.SymLabel.lift(lj)
                    if ti is None or tj is None:
                        claims.append((f"CELLSIG_{i + 1:02d}", f"signal label of type {type(li).__name__}"))
                        continue
                    claims.append((f"CELLSIG_{i + 1:02d}/{j + 1:02d}", z3.Implies(gis[i] == gis[j], ti.t == tj.t)))

            def cex(name, model, text):
                emit(eng, d, res, f"option {opt}: one signal labelled differently in two cells ({text})", opt, model=model, checks=['msm'])
            msgdrv.discharge(eng, claims, res, cex)
        res.count('paths_checked')
        if len(res['witnesses']) < 1 and eng.check3() == 'sat':
            res['witnesses'].append({'kind': 'labelopt', 'payload': d.payload_from_model(eng.model()).hex(), 'options': [2, 1, 2, True, 0, 7]})
    res.absorb_engine(eng)


def emit(eng, d, res, why, opt, model=None, v=None, checks=None):
    if model is None and eng.check3() == 'sat':
        model = eng.model()
    if model is None:
        res['harness_errors'].append("no model for " + why)
        return
    opts = [2, 1, 2, True, 0]
    if v is not None:
        opts.append(model.eval(v.t, model_completion=True).as_signed_long())
    res['cex'].append({'kind': 'labelopt', 'payload': d.payload_from_model(model).hex(), 'options': opts, 'why': why,
                       'dedup': f"{d.ident[:3]}:{why[:40]}"})


def run_plain(spec, res):
    """non-MSM identities: the option must not influence anything"""
    from pyrtcm.rtcmmessage import RTCMMessage
    _, ident = spec
    if not structs.wellformed(ident):
        return
    kd = structs.kind_of(ident)
    st = dict(harm=(0, 1, 1)) if kd == 'harm' else dict(flags=5) if kd == 'flags' else dict(mode=('uniform', 1))
    d = msgdrv.Directed(ident, structs.chooser(st), spare=1)
    eng = sym.Engine(max_paths=16, conc_limit=4)

    def fn():
        p = d.build(eng)
        v = sym.symint("opt", 8, signed=True)
        return RTCMMessage(payload=p, labelmsm=1), RTCMMessage(payload=p, labelmsm=v), RTCMMessage(payload=p, labelmsm=2)
    for path in eng.explore(fn):
        if path.kind == 'abort':
            continue
        res['obligations'] += 1
        if path.kind != 'ret':
            res['obligations'] -= 1
            res['inconclusive'].append(f"{spec}: {path.kind} {str(path.value)[:80]}")
            continue
        m1, mv, m2 = path.value
        bad = compare(m1, mv, False) + compare(m1, m2, False)
        for m in (mv,):
            for val in msgdrv.public_attrs(m).values():
                for t in sym.term_of(val):
                    if "opt" in sym.vars_of(t):
                        bad.append("an attribute term mentions the option")
        if bad:
            res['refuted'] += 1
            emit(eng, d, res, "non-MSM message influenced by the label option: " + "; ".join(bad[:3]), 2)
        else:
            res['discharged'] += 1
        res.count('paths_checked')
    res.absorb_engine(eng)


def run_reader(spec, res):
    """the reader passes its option through to every parse: reader(labelmsm=o) == RTCMMessage(payload, labelmsm=o)"""
    from pyrtcm.rtcmmessage import RTCMMessage
    ident, opt = spec[1], spec[2]
    validate = spec[3] if len(spec) > 3 else 1
    if structs.kind_of(ident) == 'msm':
        d = h_C09.make_directed(ident, 1, 1)
    else:
        d = msgdrv.Directed(ident, structs.chooser(dict(mode=('uniform', 1))), spare=0)
    eng = sym.Engine(max_paths=32, conc_limit=8)
    H = {}

    def fn():
        p = d.build(eng)
        crc = sym.symbytes("c", 3)
        frame = SymBytes([0xD3, d.L >> 8, d.L & 0xFF] + p.e + crc.e)
        H['frame'] = frame

        def hook(arg, r):
            if not isinstance(r, int) and len(arg) == len(frame):
                eng.assume(r.t == 0)
        run = rdrdrv.iterate(shims.SymStream(frame), mode=2, labelmsm=opt, validate=validate, crc_hook=hook)
        return run, RTCMMessage(payload=p, labelmsm=opt)
    for path in eng.explore(fn):
        if path.kind == 'abort':
            continue
        res['obligations'] += 1
        if path.kind != 'ret':
            res['obligations'] -= 1
            res['inconclusive'].append(f"{spec}: {path.kind} {str(path.value)[:80]}")
            continue
        run, direct = path.value
        prs = run.pairs()
        bad = []
        if len(prs) != 1 or prs[0][1] is None:
            bad.append(f"reader returned {len(prs)} messages for one valid frame")
        else:
            bad += compare(prs[0][1], direct, False)
        if bad:
            res['refuted'] += 1
            # prefer a model on which the two results really differ (e.g. not a reserved signal, which is N/A under every option)
            pref = None
            if len(prs) == 1 and prs[0][1] is not None:
                pa, pb = msgdrv.public_attrs(prs[0][1]), msgdrv.public_attrs(direct)
                for k_ in pa:
                    ta, tb_ = sym.term_of(pa[k_]), sym.term_of(pb.get(k_))
                    if len(ta) == 1 and len(tb_) == 1 and not ta[0].eq(tb_[0]) and ta[0].sort() == tb_[0].sort():
                        pref = ta[0] != tb_[0]
                        break
            if (pref is not None and eng.check3(pref) == 'sat') or eng.check3() == 'sat':
                m = eng.model()
                res['cex'].append({'kind': 'labelopt', 'payload': d.payload_from_model(m).hex(), 'options': [opt], 'via_reader': True, 'validate': validate,
                                   'why': "reader does not pass the label option through: " + "; ".join(bad[:3]), 'dedup': f"reader:{ident}:{opt}"})
        else:
            res['discharged'] += 1
        res.count('paths_checked')
    res.absorb_engine(eng)


def run_job(spec):
    msgdrv.install()
    res = JobResult(str(spec))
    if spec[0] == 'msm':
        if structs.wellformed(spec[1]):
            run_msm(spec, res)
            if spec[2] == 1:
                for pl in structs.random_msm_cases(spec[1], 3, 8):
                    res['witnesses'].append({'kind': 'labelopt', 'payload': pl.hex(), 'options': [2, 1, 2, True, 0, 5]})
    elif spec[0] == 'plain':
        run_plain(spec, res)
    else:
        run_reader(spec, res)
    res['samples'].append({'job': list(spec), 'paths': res['paths']})
    return res


def vacuity(tier, results, counters):
    if counters.get('paths_checked', 0) < 20:
        return [f"only {counters.get('paths_checked', 0)} paths checked"]
    return []
