#!/usr/bin/env python3
"""Regenerate /verif/MANIFEST.json from the table below (kept valid at all times)."""
import json

TECH = "bounded symbolic execution of the real Python functions with z3 (bit-vector proxies, solver-decided obligations, concrete replay)"

CLAIMS = {
    "C03": dict(
        text="Bounded symbolic execution of the real RTCMMessage constructor: for every defined identity and every structure "
             "(repeat-count vector, flag set, mask shape) inside the bound, one symbolic run yields each attribute as a z3 term over "
             "ALL payload bits; z3 proves it equal to the term an independent layout walker + field-semantics oracle derives from the "
             "same bits. Holds for every payload of that structure, not for samples. Counterexamples are replayed on the unmodified code.",
        note="Trusted: CPython, z3, the proxy arithmetic (differentially self-tested), the repository's definition tables as the reference "
             "for order/width/type (pinned separately by C10). Float scaling is an uninterpreted (raw term, constant) pair; NUL text units assumed away.",
        ref="DESIGN.md section 5 C03", technique=TECH),
    "C01": dict(
        text="Bounded symbolic execution of the real RTCMReader (read/_parse_rtcm3/_parse_ubx/_parse_nmea/_read_bytes/parse) and RTCMMessage over a "
             "fault-injecting stream double whose every byte is a solver variable: all byte streams up to the length bound, framed templates with symbolic "
             "payload/CRC/noise, a maximum-size frame with free length bytes, and short/empty reads as solver decisions. For every returned pair z3 decides the "
             "frame grammar under the path condition; slice identity is identity of z3 terms; the CRC clause is discharged on the recorded result term of the real "
             "calc_crc24q (tied to CRC-24Q by C08).",
        note="Trusted: CPython, z3, stream double contract (read(n) returns <= n bytes), CRC fold summary for frames > 6 bytes (over-approximation, justified by C08 F1-F3); "
             "message numbers per frame restricted to representatives; bounds in evidence.",
        ref="DESIGN.md section 5 C01", technique=TECH),
    "C06": dict(
        text="Bounded symbolic execution of the real constructor on truncated payloads: for every structure of every defined identity and every cut length inside "
             "the bound, ALL bits of the truncated payload are symbolic and every feasible path must raise; in free mode (counters symbolic) every success path is "
             "checked against the independent layout walker: the fields announced by the counters of that path must fit into the payload.",
        note="Trusted: CPython, z3, proxies (negative shift counts raise ValueError exactly as CPython), definition tables as layout reference.",
        ref="DESIGN.md section 5 C06", technique=TECH),
    "C15": dict(
        text="Bounded symbolic execution of the real constructor with the message number free: the solver enumerates all 4096 numbers and all 256 sub-types of 4076 "
             "(every other payload bit symbolic) and on each path the identity string, stub attributes, payload, serialize() framing and MSM predicate are checked "
             "against the 12-bit / 8-bit extraction and the pinned MSM number set.",
        note="Trusted: CPython, z3, pinned MSM number set (spec/msm.json); payload lengths 3-5 (quick).",
        ref="DESIGN.md section 5 C15", technique=TECH),
    "C04": dict(
        text="Bounded symbolic execution of the real constructor (free mode: every identity class x every payload length in the bound, all bits symbolic), of "
             "RTCMReader.parse on symbolic buffers with a free validate integer, and of the reader over all byte streams up to the length bound in the three "
             "error modes: on every feasible path the outcome must be a message, a clean end or one of the four library exception classes, modes 0/1 never raise, "
             "and iteration ends within 3*len+8 next() calls (a path exceeding the decision budget is replayed under a watchdog).",
        note="Trusted: CPython, z3, stream double contract; counters explored for 0,1,2 + one larger value; MSM masks above the header enumerated by popcount shape; "
             "text messages capped at 150 paths per (identity,length) - caps are listed as truncations in the evidence.",
        ref="DESIGN.md section 5 C04", technique=TECH),
    "C02": dict(
        text="Bounded symbolic execution of the real reader (and SocketWrapper over a socket double) on structured streams: every sequence of items inside the bound "
             "(frames incl. zero-length and 1023-byte, NMEA, UBX incl. a 257-byte one, inert noise) with payloads, CRC bytes, NMEA bodies and UBX contents as solver "
             "variables. The list of returned raws must equal, term by term and in order, the generator's own list of frames, and iteration must end cleanly; "
             "socket runs enumerate the placement of receive cuts as solver decisions.",
        note="Trusted: CPython, z3, doubles' contracts; a generated frame is 'valid' by assuming the code's own CRC result zero (C08 ties it to CRC-24Q; concrete witnesses "
             "are rebuilt with an independent CRC); message numbers by assumption (4072, 1070, 1005).",
        ref="DESIGN.md section 5 C02", technique=TECH),
    "C05": dict(
        text="Bounded symbolic execution of the real reader on streams of 2-3 frames with every subset damaged: a frame is damaged by assuming the code's own CRC result "
             "non-zero over symbolic payload/CRC bytes (every content the CRC rejects, incl. undecodable content), good by assuming it zero. Returned frames, handler calls, "
             "raised exception types and their order are checked per error mode; 8-byte frames with explicit 1-3 bit / burst<=24 error patterns go through the real CRC directly.",
        note="Trusted: CPython, z3, stream double; that every damage class yields a non-zero CRC is C08's lemma chain on the real loop body.",
        ref="DESIGN.md section 5 C05", technique=TECH),
    "C08": dict(
        text="Fold extraction of the real calc_crc24q (pre/step/post regenerated from the current source) and z3 proofs over ALL 2^24 states x 2^8 octets of the step: "
             "equals long division by 0x1864CFB and the table form, range invariant, linearity, non-zero preservation, parity, burst<=24, two-bit errors with every gap "
             "up to the bound, appended CRC zeroes the register (and uniquely). By induction on length (<=1029 bytes) these give correctness and the detection guarantees. "
             "RTCMReader.parse on symbolic frames: rejects iff the checksum bit is set and the CRC over exactly the buffer is non-zero; trailer unused with validation off; "
             "history independence of the helper.",
        note="Trusted: CPython, z3 (thorough: lemmas re-checked with cvc5 and z3 4.8.12); the induction composing the per-step lemmas is stated, not mechanised.",
        ref="DESIGN.md section 5 C08", technique="SMT proofs (z3 bit-vectors) of inductive step lemmas on the fold-extracted real loop body + bounded symbolic execution of parse()"),
    "C09": dict(
        text="Bounded symbolic execution of the real constructor with the predicated _getsatcellmaps: satellite and signal masks are written as sums of one-hot "
             "terms over symbolic witness positions (so ALL C(64,k) x C(32,g) placements are covered at once), cell mask and remaining payload free. z3 proves "
             "NSat/NSig/NCell and every PRN_/CELLPRN_/CELLSIG_ label equal to the 'i-th set bit' specification with pinned PRN numbering and RINEX tables, incl. the "
             "not-available marker for reserved IDs; two-message histories (same masks, other constellation) are checked the same way.",
        note="Trusted: CPython, z3, pinned tables spec/msm.json (RTCM 10403.3; unpinned BeiDou ranges listed), predication transform (validated by concrete witnesses with "
             "awkward masks replayed on the unmodified code). Shapes up to 2x2 quick / 3x3 thorough with symbolic positions.",
        ref="DESIGN.md section 5 C09", technique=TECH),
    "C16": dict(
        text="Relational bounded symbolic execution: the same symbolic MSM payload (mask positions symbolic) is parsed with option 2, 1, 2 again, a free integer option, "
             "True and 0 inside one path; attribute terms must coincide except CELLSIG_*, a signal position must carry one label per option, absolute labels are checked "
             "in that parse order, non-MSM messages and the reader pass-through must not depend on the option.",
        note="Trusted: CPython, z3, predication transform; shapes up to 2x2.",
        ref="DESIGN.md section 5 C16", technique=TECH),
    "C18": dict(
        text="Bounded symbolic execution of parse_msm / parse_4076_201 on symbolically decoded messages: returned metadata and array entries must be the very attribute "
             "terms of the message, in index order (incl. 153-coefficient layers with three-digit indices and histories starting with empty-mask messages); on all 4096 "
             "message numbers and 256 sub-types of 4076 the helpers return None and never raise.",
        note="Trusted: CPython, z3; epoch field per constellation pinned; mask shapes up to 2x2.",
        ref="DESIGN.md section 5 C18", technique=TECH),
    "C07": dict(
        text="Bounded symbolic execution of serialize(), RTCMReader.parse() and repr on symbolic payloads: unknown types at the length-field boundaries "
             "(2..8, 255/256, 511/512, 1023) and every defined identity in directed mode padded to several lengths. Header bytes, payload identity, the CRC trailer "
             "(big-endian of the code's own CRC over header+payload), parse(serialize(m)) == m term by term, parse(f).serialize() == f for symbolic valid frames "
             "(trailer via lemma Z'), repr embeds exactly the payload's repr; two-frame histories with equal length and trailer.",
        note="Trusted: CPython (bytes repr/eval), z3; CRC fold summary keyed on term identity (exact for short messages, C08 lemmas Z/Z' for the trailer); "
             "lengths not listed are outside the claim.",
        ref="DESIGN.md section 5 C07", technique=TECH),
    "C11": dict(
        text="Bounded symbolic execution of the real SocketWrapper over a socket double whose recv lengths, timeouts/OS errors and close are solver decisions: bounded "
             "histories (all streams of n symbolic bytes, all segmentations, read sizes symbolic) and a ONE-STEP check from an arbitrary buffer state (which covers histories "
             "of any length): never more than requested, fewer only after close/fault, result+buffer == old buffer+received term by term; readline terminator rule; reader "
             "over the socket equals the generator's frame list.",
        note="Trusted: CPython, z3, recv contract of the double; bufsize values {1,2,3,4096}.",
        ref="DESIGN.md section 5 C11", technique=TECH),
    "C12": dict(
        text="Bounded symbolic execution of the real dechunk/_recv/read over the socket double: well-formed chunked bodies with symbolic chunk data (may equal CR/LF/hex "
             "digits), every placement of up to 3 receive cuts as solver decisions, chunked alone and with gzip/compress/deflate where zlib.decompress is an uninterpreted "
             "function (so 'the decompressor is applied to exactly each chunk body, in order' is decidable). Delivered bytes must equal the RFC 9112 reference over the "
             "unsegmented stream, term by term.",
        note="Trusted: CPython, z3, BytesIO/bytes/int shims of the socketwrapper module; zlib itself is outside (FFI).",
        ref="DESIGN.md section 5 C12", technique=TECH),
    "C13": dict(
        text="Self-composition by bounded symbolic execution: message B parsed after message A (complete, truncated, unknown, text, MSM, nested groups; through the "
             "constructor, RTCMReader.parse and one reader object) must give term by term what B gives from the pristine state and must not mention A's variables; MSM pairs "
             "with equal masks and the CRC helper are checked the same way; all definition/lookup tables are deep-compared before/after; every write to module- or "
             "class-level state during any path is recorded. Thread interleavings are NOT explored: the thread clause is decided by the frame condition (no shared write => "
             "disjoint state); a shared write is handed to a concrete 8-thread cold-start replay and reported as a violation only if it reproduces, else inconclusive.",
        note="Trusted: CPython, z3; shared-state tracker sees empty/None package-level containers, rebinding of package-level bindings and lazily created names; "
             "in-place mutation of non-empty tables is seen by the deep comparison.",
        ref="DESIGN.md section 5 C13", technique=TECH + "; thread clause by frame condition"),
    "C14": dict(
        text="Bounded symbolic execution of __setattr__ on symbolically decoded messages of every family (incl. unknown/reserved types): every existing attribute name, "
             "the private ones, fresh names and SYMBOLIC names of 1-4 free characters, with a free integer value (so 'equal to the current value' is one of the cases) and "
             "float/bytes/str/None: each attempt must raise RTCMMessageError and leave __dict__ (same objects), payload, identity and serialize() terms unchanged.",
        note="Trusted: CPython, z3.", ref="DESIGN.md section 5 C14", technique=TECH),
    "C19": dict(
        text="Bounded symbolic execution of att2idx / att2name / datadesc on every (field, nesting depth) name template the layout walker derives from the tables, with the "
             "index DIGITS symbolic (two- and three-digit indices per level: all indices 1..999 in one path per template); results are compared with the digit polynomial, "
             "the field key and the table description; families of underscore field names are checked in sequences.",
        note="Trusted: CPython, z3, string proxy; boundary indices additionally replayed concretely.", ref="DESIGN.md section 5 C19", technique=TECH),
    "C17": dict(
        text="Relational bounded symbolic execution: differently configured readers (validate a free integer with the checksum bit clear, parsed a free boolean, three error "
             "modes, both label options) iterate the SAME symbolic stream inside one path as the reference reader (validate=1, parsed=True, checksums valid by assumption); "
             "returned raw frames, decoded attribute terms, exception/frame event order and iteration end must coincide, attribute terms must not mention the checksum bytes; "
             "static parser: parse(f, validate=even) == parse(f with right checksum, validate=1) term by term (payloads up to 1023 bytes, incl. 600).",
        note="Trusted: CPython, z3, stream double; frames without a message number are left out of the parsed on/off comparison (they cannot be parsed at all).",
        ref="DESIGN.md section 5 C17", technique=TECH),
    "C10": dict(
        text="Decided on the code and on the tables: (a) every defined identity decodes on every path of a symbolic complete payload for every structure of the bound; "
             "definitions are well-shaped, name defined fields, counters refer to earlier fields, identity ranges dispatch to the right table; (b) for ~100 pinned types "
             "(standard observables, ephemerides, SSR, all 49 MSM, 36 IGS sub-types, 4076_201) a symbolic payload of exactly ceil(S/8) bytes decodes on every path and one byte "
             "less is rejected on every path, where S is the standard's formula, and the independent layout walker's bit total equals S exactly; (c) composite SSR blocks: the "
             "same symbolic block bits laid under the combined and the orbit/clock definitions give equal attribute terms (solver-decided) and equal field sequences; extended "
             "observables contain the basic ones; one MSM layout per level; all IGS constellations share IGM01-07.",
        note="Trusted: CPython, z3, pinned formulas/relations in spec/lengths.json and spec/siblings.json (written from RTCM 10403.3 / IGS SSR v1, each cross-checked against "
             "the recorded frames of the repository's tests; unpinned types listed there).",
        ref="DESIGN.md section 5 C10", technique=TECH + " + table conformance against pinned standard data"),
}

NA_REASON = "check under construction in this build round (see DESIGN.md); will be claimed once its harness lands"


def main():
    props = [json.loads(l) for l in open('/verif/properties.jsonl')]
    checks, na = [], []
    for p in props:
        pid = p['id']
        if pid in CLAIMS:
            c = CLAIMS[pid]
            checks.append({
                "property_id": pid,
                "quick_cmd": f"./check {pid} quick",
                "thorough_cmd": f"./check {pid} thorough",
                "evidence_file": f"/verif/evidence/{pid}.json",
                "replay_cmd_template": f"./check {pid} --replay {{path}}",
                "engine": "pvx",
                "level_claimed": {"category": c.get("category", "model_checking"), "text": c["text"], "design_ref": c["ref"]},
                "level_note": c["note"],
                "technique": c["technique"],
            })
        else:
            na.append({"property_id": pid, "reason": NA.get(pid, NA_REASON)})
    m = {
        "version": 1,
        "setup_cmd": "./setup.sh",
        "hooks": {
            "guard": "PYRTCM_VERIF",
            "enable": "no hooks: checks import /repo/src unmodified; shims are injected into module namespaces of the checking process only",
            "baseline_off_cmd": "cd /repo && /venv/bin/python -m pytest -ra -q -p no:cacheprovider --timeout=900 --continue-on-collection-errors",
            "source_commits": [],
            "add_only": True,
        },
        "engines": [{
            "name": "pvx", "path": "/verif/pvx",
            "serves_properties": sorted(CLAIMS),
            "kind_free_text": "Engine S: shadow symbolic execution of the real pyrtcm functions under CPython with z3-backed proxy values "
                              "(exact-width bit-vector ints, symbolic bytes/strings, guarded containers), DFS over a decision trail, "
                              "if-conversion/predication source transforms regenerated from /repo on every run; Engine K: fold extraction "
                              "of calc_crc24q (pre/step/post) for inductive CRC lemmas. Obligations decided by z3; counterexamples replayed "
                              "on the unmodified code.",
        }],
        "checks": checks,
        "not_applicable": na,
        "notes": "Exit codes of ./check: 0 held within the stated bounds, 1 violation (VIOLATION line), 2 inconclusive (solver unknown / budget), "
                 "3 harness error (non-reproducing counterexample, failed self-validation).",
    }
    json.dump(m, open('/verif/MANIFEST.json', 'w'), indent=1)
    print("claimed", len(checks), "n/a", len(na))


NA = {}

if __name__ == "__main__":
    main()
