#!/usr/bin/env python3
"""Regenerate /verif/MANIFEST.json from the table below (kept valid at all times)."""
import json

TECH = "bounded symbolic execution of the real Python functions with z3 (bit-vector proxies, solver-decided obligations, concrete replay)"

CLAIMS = {
    "C03": dict(
        text="Bounded symbolic execution of the real RTCMMessage constructor: for every defined identity and every structure "
             "(repeat-count vector, flag set, mask shape) inside the bound, one symbolic run yields each attribute as a z3 term over "
             "ALL payload bits; z3 proves it equal to the term an independent layout walker + field-semantics oracle derives from the "
             "same bits. Holds for every payload of that structure, not for samples. Counterexamples are replayed on the unmodified code.",
        note="Trusted: CPython, z3, the proxy arithmetic (differentially self-tested), the repository's definition tables as the reference "
             "for order/width/type (pinned separately by C10). Float scaling is an uninterpreted (raw term, constant) pair; NUL text units assumed away.",
        ref="DESIGN.md section 5 C03", technique=TECH),
}

NA_REASON = "check under construction in this build round (see DESIGN.md); will be claimed once its harness lands"


def main():
    props = [json.loads(l) for l in open('/verif/properties.jsonl')]
    checks, na = [], []
    for p in props:
        pid = p['id']
        if pid in CLAIMS:
            c = CLAIMS[pid]
            checks.append({
                "property_id": pid,
                "quick_cmd": f"./check {pid} quick",
                "thorough_cmd": f"./check {pid} thorough",
                "evidence_file": f"/verif/evidence/{pid}.json",
                "replay_cmd_template": f"./check {pid} --replay {{path}}",
                "engine": "pvx",
                "level_claimed": {"category": c.get("category", "model_checking"), "text": c["text"], "design_ref": c["ref"]},
                "level_note": c["note"],
                "technique": c["technique"],
            })
        else:
            na.append({"property_id": pid, "reason": NA.get(pid, NA_REASON)})
    m = {
        "version": 1,
        "setup_cmd": "./setup.sh",
        "hooks": {
            "guard": "PYRTCM_VERIF",
            "enable": "no hooks: checks import /repo/src unmodified; shims are injected into module namespaces of the checking process only",
            "baseline_off_cmd": "cd /repo && /venv/bin/python -m pytest -ra -q -p no:cacheprovider --timeout=900 --continue-on-collection-errors",
            "source_commits": [],
            "add_only": True,
        },
        "engines": [{
            "name": "pvx", "path": "/verif/pvx",
            "serves_properties": sorted(CLAIMS),
            "kind_free_text": "Engine S: shadow symbolic execution of the real pyrtcm functions under CPython with z3-backed proxy values "
                              "(exact-width bit-vector ints, symbolic bytes/strings, guarded containers), DFS over a decision trail, "
                              "if-conversion/predication source transforms regenerated from /repo on every run; Engine K: fold extraction "
                              "of calc_crc24q (pre/step/post) for inductive CRC lemmas. Obligations decided by z3; counterexamples replayed "
                              "on the unmodified code.",
        }],
        "checks": checks,
        "not_applicable": na,
        "notes": "Exit codes of ./check: 0 held within the stated bounds, 1 violation (VIOLATION line), 2 inconclusive (solver unknown / budget), "
                 "3 harness error (non-reproducing counterexample, failed self-validation).",
    }
    json.dump(m, open('/verif/MANIFEST.json', 'w'), indent=1)
    print("claimed", len(checks), "n/a", len(na))


NA = {}

if __name__ == "__main__":
    main()
