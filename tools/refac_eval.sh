#!/bin/sh
# run the relevant quick checks against the 12 semantics-preserving refactorings in /verif/seeded/refactorings (must all stay green)
run() { k=$1; shift; for id in "$@"; do
  dir=$(mktemp -d /tmp/pvxref.XXXXXX); git -C /repo worktree add --detach -f "$dir/repo" HEAD >/dev/null 2>&1
  if git -C "$dir/repo" apply /verif/seeded/refactorings/$k/patch.diff; then
    PVX_REPO="$dir/repo" PVX_EVIDENCE_DIR="$dir/ev" PVX_REPLAY_DIR="$dir/rp" /verif/check $id quick > "$dir/out.txt" 2>&1; rc=$?
    echo "refactoring $k check $id exit $rc $(grep -E '^\[C' $dir/out.txt | tail -1 | cut -c1-160)"; grep -E "VIOLATION|HARNESS|INCONCL|detail" "$dir/out.txt" | head -4
  else echo "refactoring $k: patch does not apply"; fi
  git -C /repo worktree remove --force "$dir/repo"; rm -rf "$dir"; done; }
run 01 C08 C05 C07; run 02 C03 C06; run 03 C15 C04; run 04 C11 C02; run 05 C11; run 06 C09 C16; run 07 C01 C02; run 08 C02; run 09 C13 C15; run 10 C18; run 11 C19; run 12 C12
