#!/usr/bin/env python3
"""print a markdown table of /verif/seeded/*/meta.json"""
import json, glob, os, re
rows = []
for f in sorted(glob.glob('/verif/seeded/*/meta.json')):
    m = json.load(open(f))
    name = os.path.basename(os.path.dirname(f))
    notes = m.get('needs_to_manifest', '')
    first = ""
    for line in notes.splitlines():
        line = line.strip().lstrip('#').strip()
        if len(line) > 25 and not line.lower().startswith(('seed', 'notes')):
            first = line
            break
    first = re.sub(r'[`|*]', '', first)[:150]
    det = ""
    for c, r in m.get('checks', {}).items():
        if r.get('caught'):
            d = [l for l in r['lines'] if 'detail' in l]
            det = f"{c} quick ({r['wall_s']:.0f} s): " + (d[0].split('detail:')[1].strip()[:110] if d else 'VIOLATION')
            break
    if not det:
        det = "; ".join(f"{c} exit {r['exit']}" for c, r in m.get('checks', {}).items()) + " (not caught)"
    rows.append(f"| {name} | {'yes' if m.get('confirmed') else 'NO'} | {first} | {det.replace('|', '/')} |")
print("| seed | confirmed | change (first line of the author's notes) | caught by |")
print("|------|-----------|--------------------------------------------|-----------|")
print("\n".join(rows))
