#!/usr/bin/env python3
"""validate MANIFEST.json and evidence files against the schemas"""
import json, sys, glob, jsonschema
ok = True
m = json.load(open('/verif/MANIFEST.json'))
try:
    jsonschema.validate(m, json.load(open('/root/.vp/MANIFEST.schema.json')))
except Exception as e:
    ok = False; print("MANIFEST:", str(e)[:300])
es = json.load(open('/root/.vp/EVIDENCE.schema.json'))
for f in sorted(glob.glob('/verif/evidence/*.json')):
    try:
        jsonschema.validate(json.load(open(f)), es)
    except Exception as e:
        ok = False; print(f, str(e)[:300])
props = [json.loads(l)['id'] for l in open('/verif/properties.jsonl')]
claimed = [c['property_id'] for c in m['checks']]
na = [n['property_id'] for n in m.get('not_applicable', [])]
for p in props:
    if (p in claimed) == (p in na):
        ok = False; print("property", p, "claimed" if p in claimed else "neither claimed nor n/a")
print("valid" if ok else "INVALID")
sys.exit(0 if ok else 1)
