#!/bin/sh
# tools/mutant.sh <patch.diff> <tier> <id>...   run checks against a scratch copy of /repo with the patch applied
patch="$1"; tier="$2"; shift 2
dir=$(mktemp -d /tmp/pvxmut.XXXXXX)
git -C /repo worktree add --detach -f "$dir/repo" HEAD >/dev/null 2>&1 || { echo "worktree failed"; exit 3; }
if ! git -C "$dir/repo" apply "$patch"; then echo "patch does not apply"; git -C /repo worktree remove --force "$dir/repo"; rm -rf "$dir"; exit 3; fi
if [ -n "$RUN_TESTS" ]; then (cd "$dir/repo" && /venv/bin/python -m pytest -q -p no:cacheprovider -x 2>&1 | tail -2); fi
for id in "$@"; do
  PVX_REPO="$dir/repo" PVX_EVIDENCE_DIR="$dir/evidence" PVX_REPLAY_DIR="$dir/replays" /verif/check "$id" "$tier" > "$dir/out.txt" 2>&1
  rc=$?
  grep -E "^\[|VIOLATION|KNOWN|HARNESS|INCONCL|detail" "$dir/out.txt" | head -${MUT_LINES:-8}
  echo "  -> $id exit $rc"
done
git -C /repo worktree remove --force "$dir/repo"; rm -rf "$dir"
