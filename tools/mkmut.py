#!/usr/bin/env python3
"""tools/mkmut.py <out.diff> <file relative to repo> <old> <new> [<old> <new> ...]  -- build a git-style patch by string replacement"""
import sys, subprocess, tempfile, os, shutil
out, f = sys.argv[1], sys.argv[2]
pairs = sys.argv[3:]
tmp = tempfile.mkdtemp(prefix="mk.")
try:
    for side in "ab":
        os.makedirs(os.path.join(tmp, side, os.path.dirname(f)), exist_ok=True)
        shutil.copy(os.path.join("/repo", f), os.path.join(tmp, side, f))
    p = os.path.join(tmp, "b", f)
    s = open(p, newline="").read()
    for i in range(0, len(pairs), 2):
        old, new = pairs[i].encode().decode("unicode_escape"), pairs[i + 1].encode().decode("unicode_escape")
        if old not in s:
            print("NOT FOUND:", old); sys.exit(1)
        s = s.replace(old, new, 1)
    open(p, "w", newline="").write(s)
    r = subprocess.run(["diff", "-u", f"a/{f}", f"b/{f}"], cwd=tmp, capture_output=True)
    open(out, "wb").write(r.stdout)
    print("patch lines:", r.stdout.count(b"\n"))
finally:
    shutil.rmtree(tmp)
