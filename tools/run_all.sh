#!/bin/sh
# tools/run_all.sh <quick|thorough> [seed] [ids...]  -- run the checks one after the other, print one line each (exit code and wall time)
tier="${1:-quick}"; seed="${2:-0}"; shift 2 2>/dev/null
ids="$*"; [ -z "$ids" ] && ids="C01 C02 C03 C04 C05 C06 C07 C08 C09 C10 C11 C12 C13 C14 C15 C16 C17 C18 C19"
cd "$(dirname "$0")/.." || exit 3
for id in $ids; do
  t0=$(date +%s)
  VERIF_SEED=$seed ./check $id $tier > /tmp/run_all.$id.$tier.$seed.log 2>&1
  rc=$?
  t1=$(date +%s)
  echo "$id $tier seed=$seed exit=$rc wall=$((t1-t0))s $(grep -E '^\[C' /tmp/run_all.$id.$tier.$seed.log | tail -1 | cut -c1-200)"
  grep -E "VIOLATION|HARNESS|INCONCL" /tmp/run_all.$id.$tier.$seed.log | head -3
done
