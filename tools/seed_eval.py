#!/usr/bin/env python3
"""Confirm the seeded changes under /tmp/seed/out/<id>/<A|B> and run the checks against them.
For each seed: scratch worktree of /repo, apply patch, existing test-suite must pass, demo must FAIL with the patch and PASS without it,
then the listed checks (quick) are run against the patched tree.  Results go to /verif/seeded/<id>-<A|B>/{patch.diff,demo.py,meta.json}.
usage: tools/seed_eval.py [ids...]   (default: all)"""
import json
import os
import shutil
import subprocess
import sys
import tempfile
import time

SRC = os.environ.get("SEED_SRC", "/tmp/seed/out")
PREFIX = os.environ.get("SEED_PREFIX", "")
DST = "/verif/seeded"
PY = "/venv/bin/python"


def sh(cmd, cwd=None, env=None, timeout=3600):
    p = subprocess.run(cmd, shell=True, cwd=cwd, env=env, capture_output=True, text=True, timeout=timeout)
    return p.returncode, p.stdout + p.stderr


def main():
    ids = sys.argv[1:] or sorted(os.listdir(SRC))
    extra = json.load(open("/verif/tools/seed_checks.json")) if os.path.exists("/verif/tools/seed_checks.json") else {}
    for pid in ids:
        for ab in ("A", "B"):
            src = os.path.join(SRC, pid, ab)
            if not os.path.exists(os.path.join(src, "patch.diff")):
                continue
            name = f"{PREFIX}{pid}-{ab}"
            dst = os.path.join(DST, name)
            os.makedirs(dst, exist_ok=True)
            meta = {"property": pid, "seed": ab, "source": "independent sub-agent given only the property text and a scratch worktree"}
            tmp = tempfile.mkdtemp(prefix="seedeval.")
            wt = os.path.join(tmp, "repo")
            try:
                rc, out = sh(f"git -C /repo worktree add --detach -f {wt} HEAD")
                env = dict(os.environ, PYTHONPATH=f"{wt}/src")
                rc0, out0 = sh(f"{PY} {src}/demo.py", cwd=wt, env=env, timeout=600)
                meta["demo_without_patch_exit"] = rc0
                rc, out = sh(f"git -C {wt} apply {src}/patch.diff")
                meta["patch_applies"] = rc == 0
                if rc != 0:
                    meta["error"] = out[-300:]
                    continue
                rc, out = sh(f"{PY} -m pytest -q -p no:cacheprovider --timeout=900", cwd=wt, env=env, timeout=1200)
                tail = [l for l in out.splitlines() if " passed" in l or " failed" in l]
                meta["tests_with_patch"] = tail[-1].strip() if tail else out[-200:]
                meta["tests_pass"] = bool(tail) and "failed" not in tail[-1] and "40 passed" in tail[-1]
                rc1, out1 = sh(f"{PY} {src}/demo.py", cwd=wt, env=env, timeout=600)
                meta["demo_with_patch_exit"] = rc1
                meta["demo_with_patch_tail"] = out1.strip().splitlines()[-1][:200] if out1.strip() else ""
                meta["confirmed"] = meta["tests_pass"] and rc0 == 0 and rc1 != 0
                checks = [pid] + [c for c in extra.get(name, []) if c != pid]
                meta["checks"] = {}
                for c in checks:
                    t = time.time()
                    env2 = dict(os.environ, PVX_REPO=wt, PVX_EVIDENCE_DIR=f"{tmp}/ev", PVX_REPLAY_DIR=f"{tmp}/rp")
                    rc, out = sh(f"/verif/check {c} quick", env=env2, timeout=2400)
                    lines = [l for l in out.splitlines() if l.startswith(("VIOLATION", "  detail", "INCONCLUSIVE", "HARNESS-ERROR", "KNOWN"))]
                    meta["checks"][c] = {"exit": rc, "wall_s": round(time.time() - t, 1), "caught": rc == 1,
                                         "lines": [l[:260] for l in lines[:4]]}
                meta["caught_by"] = [c for c, r in meta["checks"].items() if r["caught"]]
            finally:
                sh(f"git -C /repo worktree remove --force {wt}")
                shutil.rmtree(tmp, ignore_errors=True)
                for fn in ("patch.diff", "demo.py", "notes.md"):
                    if os.path.exists(os.path.join(src, fn)):
                        shutil.copy(os.path.join(src, fn), os.path.join(dst, fn))
                notes = os.path.join(src, "notes.md")
                if os.path.exists(notes):
                    meta["needs_to_manifest"] = open(notes).read()[:1500]
                meta["ran"] = ["git apply patch.diff in a scratch worktree of /repo HEAD", "pytest (existing suite)", "demo.py with and without the patch",
                               "./check <id> quick with PVX_REPO pointing at the patched worktree"]
                json.dump(meta, open(os.path.join(dst, "meta.json"), "w"), indent=1)
                print(name, "confirmed" if meta.get("confirmed") else "NOT-CONFIRMED", "caught_by", meta.get("caught_by"), flush=True)


if __name__ == "__main__":
    main()
